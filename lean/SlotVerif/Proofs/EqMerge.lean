import SlotVerif.Proofs.EqEquiv
import SlotVerif.Proofs.UfWrite
import SlotVerif.Proofs.UfTotal
/-!
# Equalities survive a merge

`move_to` (`/repo/src/egraph/union.rs`) redirects the absorbed class `from` to the surviving class `to` through a slot map
`N : slots(to) → slots(from)` and re-asserts every generator `g` of `from`'s group on `to` as `N ; g ; N⁻¹`
(`change_permutation_from_from_to_to`).  Here: conjugation by a bijection is a group homomorphism (`conj_one`, `conj_comp`,
`conj_inverse`), so every element of `from`'s group arrives in any group on `to` that contains the transferred generators
(`gen_conj`); and the permutation between the new canonical forms of two old invocations of `from` is the conjugate of the
permutation between the old ones (`comp_inv_conj`).  Hence **two invocations of the absorbed class that compared equal
before the merge compare equal after it** (`eq_survives_merge`).
-/
namespace SV.Snap
open SV SV.SlotMap SV.Grp

/-- `N` maps `Ωt` bijectively onto `Ωf` -/
structure IsBij (Ωt Ωf : List Nat) (N : SlotMap) : Prop where
  emb : IsEmb Ωt N
  into : ∀ x y, get N x = some y → y ∈ Ωf
  onto : ∀ y ∈ Ωf, ∃ x, get N x = some y

/-- `N ; p ; N⁻¹` -/
def conj (N : SlotMap) (p : Perm) : Perm := composePartial (composePartial N p) (inverse N)

theorem get_conj {Ωt Ωf : List Nat} {N : SlotMap} {p : Perm} (hN : IsBij Ωt Ωf N) (hp : IsPerm Ωf p) (x y : Nat) :
    get (conj N p) x = some y ↔ ∃ u w, get N x = some u ∧ get p u = some w ∧ get N y = some w := by
  unfold conj
  rw [get_composePartial (wf_composePartial _ _), get_composePartial hN.emb.wf]
  constructor
  · intro h
    cases hu : get N x with
    | none => rw [hu] at h; simp at h
    | some u =>
      rw [hu] at h; simp only [Option.bind_some] at h
      cases hw : get p u with
      | none => rw [hw] at h; simp at h
      | some w =>
        rw [hw] at h; simp only [Option.bind_some] at h
        exact ⟨u, w, rfl, hw, (get_inverse hN.emb.wf hN.emb.Inj y w).mp h⟩
  · rintro ⟨u, w, hu, hw, hy⟩
    rw [hu]; simp only [Option.bind_some]; rw [hw]; simp only [Option.bind_some]
    exact (get_inverse hN.emb.wf hN.emb.Inj y w).mpr hy

theorem isPerm_conj {Ωt Ωf : List Nat} {N : SlotMap} {p : Perm} (hN : IsBij Ωt Ωf N) (hp : IsPerm Ωf p) :
    IsPerm Ωt (conj N p) where
  wf := wf_composePartial _ _
  tot := by
    intro x hx
    obtain ⟨u, hu⟩ := hN.emb.tot x hx
    obtain ⟨w, hwΩ, hw⟩ := hp.tot u (hN.into x u hu)
    obtain ⟨y, hy⟩ := hN.onto w hwΩ
    exact ⟨y, hN.emb.dom y w hy, (get_conj hN hp x y).mpr ⟨u, w, hu, hw, hy⟩⟩
  dom := by
    intro x y h
    obtain ⟨u, _, hu, _, _⟩ := (get_conj hN hp x y).mp h
    exact hN.emb.dom x u hu
  inj := by
    intro x x' y h h'
    obtain ⟨u, w, hu, hw, hy⟩ := (get_conj hN hp x y).mp h
    obtain ⟨u', w', hu', hw', hy'⟩ := (get_conj hN hp x' y).mp h'
    rw [hy] at hy'
    have : w = w' := Option.some.inj hy'
    subst this
    have : u = u' := hp.inj u u' w hw hw'
    subst this
    exact hN.emb.inj x x' u hu hu'
  surj := by
    intro y hy
    obtain ⟨w, hw⟩ := hN.emb.tot y hy
    obtain ⟨u, hu⟩ := hp.surj w (hN.into y w hw)
    obtain ⟨x, hx⟩ := hN.onto u (hp.dom u w hu)
    exact ⟨x, (get_conj hN hp x y).mpr ⟨u, w, hx, hu, hw⟩⟩

theorem conj_one {Ωt Ωf : List Nat} {N : SlotMap} (hN : IsBij Ωt Ωf N) : conj N (identity Ωf) = identity Ωt := by
  apply IsPerm.ext (isPerm_conj hN (isPerm_identity Ωf)) (isPerm_identity Ωt)
  intro x hx
  rw [get_identity_of_mem hx]
  obtain ⟨u, hu⟩ := hN.emb.tot x hx
  exact (get_conj hN (isPerm_identity Ωf) x x).mpr ⟨u, u, hu, get_identity_of_mem (hN.into x u hu), hu⟩

theorem conj_comp {Ωt Ωf : List Nat} {N : SlotMap} {a b : Perm} (hN : IsBij Ωt Ωf N) (ha : IsPerm Ωf a)
    (hb : IsPerm Ωf b) : conj N (comp a b) = comp (conj N a) (conj N b) := by
  have hab := isPerm_comp ha hb
  apply IsPerm.ext (isPerm_conj hN hab) (isPerm_comp (isPerm_conj hN ha) (isPerm_conj hN hb))
  intro x hx
  obtain ⟨z, _, hz⟩ := (isPerm_conj hN hab).tot x hx
  rw [hz]
  obtain ⟨u, w, hu, hw, hzN⟩ := (get_conj hN hab x z).mp hz
  rw [get_comp ha.wf] at hw
  cases hv : get a u with
  | none => rw [hv] at hw; simp at hw
  | some v =>
    rw [hv] at hw; simp only [Option.bind_some] at hw
    obtain ⟨y, hy⟩ := hN.onto v (by obtain ⟨v', hv', hg⟩ := ha.tot u (hN.into x u hu); rw [hv] at hg; rw [Option.some.inj hg]; exact hv')
    rw [get_comp (isPerm_conj hN ha).wf, (get_conj hN ha x y).mpr ⟨u, v, hu, hv, hy⟩]
    simp only [Option.bind_some]
    exact ((get_conj hN hb y z).mpr ⟨v, w, hy, hw, hzN⟩).symm

theorem conj_inverse {Ωt Ωf : List Nat} {N : SlotMap} {a : Perm} (hN : IsBij Ωt Ωf N) (ha : IsPerm Ωf a) :
    conj N (inverse a) = inverse (conj N a) := by
  have hia := isPerm_inverse ha
  have hca := isPerm_conj hN ha
  apply IsPerm.ext (isPerm_conj hN hia) (isPerm_inverse hca)
  intro x hx
  obtain ⟨z, _, hz⟩ := (isPerm_conj hN hia).tot x hx
  rw [hz]
  obtain ⟨u, w, hu, hw, hzN⟩ := (get_conj hN hia x z).mp hz
  have hw' : get a w = some u := (get_inv ha w u).mp hw
  exact ((get_inv hca z x).mpr ((get_conj hN ha z x).mpr ⟨w, u, hzN, hw', hu⟩)).symm

/-- every element of the old group arrives: a group on `Ωt` that contains the conjugated generators contains the conjugate
of every element generated by the old generators -/
theorem gen_conj {Ωt Ωf : List Nat} {N : SlotMap} {gf gt : List Perm} (hN : IsBij Ωt Ωf N) (hvf : Valid Ωf gf)
    (hsub : ∀ g ∈ gf, Gen Ωt gt (conj N g)) {p : Perm} (h : Gen Ωf gf p) : Gen Ωt gt (conj N p) := by
  induction h with
  | one => rw [conj_one hN]; exact .one
  | gen hg => exact hsub _ hg
  | mul ha hb iha ihb => rw [conj_comp hN (ha.isPerm hvf) (hb.isPerm hvf)]; exact .mul iha ihb
  | inv ha ih => rw [conj_inverse hN (ha.isPerm hvf)]; exact .inv ih

/-- the canonical form after the merge -/
theorem isEmb_comp {Ωt Ωf : List Nat} {N A : SlotMap} (hN : IsBij Ωt Ωf N) (hA : IsEmb Ωf A) :
    IsEmb Ωt (composePartial N A) where
  wf := wf_composePartial _ _
  tot := by
    intro x hx
    obtain ⟨u, hu⟩ := hN.emb.tot x hx
    obtain ⟨v, hv⟩ := hA.tot u (hN.into x u hu)
    exact ⟨v, by rw [get_composePartial hN.emb.wf, hu]; simpa using hv⟩
  dom := by
    intro x y h
    rw [get_composePartial hN.emb.wf] at h
    cases hu : get N x with
    | none => rw [hu] at h; simp at h
    | some u => exact hN.emb.dom x u hu
  inj := by
    intro x x' y h h'
    rw [get_composePartial hN.emb.wf] at h h'
    cases hu : get N x with
    | none => rw [hu] at h; simp at h
    | some u =>
      cases hu' : get N x' with
      | none => rw [hu'] at h'; simp at h'
      | some u' =>
        rw [hu] at h; rw [hu'] at h'
        simp only [Option.bind_some] at h h'
        have : u = u' := hA.inj u u' y h h'
        subst this
        exact hN.emb.inj x x' u hu hu'

theorem get_compNA {Ωt Ωf : List Nat} {N A : SlotMap} (hN : IsBij Ωt Ωf N) (x v : Nat) :
    get (composePartial N A) x = some v ↔ ∃ u, get N x = some u ∧ get A u = some v := by
  rw [get_composePartial hN.emb.wf]
  constructor
  · intro h
    cases hu : get N x with
    | none => rw [hu] at h; simp at h
    | some u => rw [hu] at h; exact ⟨u, rfl, by simpa using h⟩
  · rintro ⟨u, hu, hv⟩; rw [hu]; simpa using hv

/-- the permutation between the new canonical forms is the conjugate of the permutation between the old ones -/
theorem comp_inv_conj {Ωt Ωf : List Nat} {N A B : SlotMap} (hN : IsBij Ωt Ωf N) (hA : IsEmb Ωf A) (hB : IsEmb Ωf B)
    (hv : ∀ v, v ∈ valuesVec A ↔ v ∈ valuesVec B) :
    (∀ v, v ∈ valuesVec (composePartial N A) ↔ v ∈ valuesVec (composePartial N B)) ∧
    composePartial (composePartial N A) (inverse (composePartial N B)) = conj N (composePartial A (inverse B)) := by
  have hA' := isEmb_comp hN hA
  have hB' := isEmb_comp hN hB
  have hπ := isPerm_comp_inv hA hB hv
  -- the new forms have the values of the old ones
  have hval : ∀ (C : SlotMap), IsEmb Ωf C → ∀ v, v ∈ valuesVec (composePartial N C) ↔ v ∈ valuesVec C := by
    intro C hC v
    rw [mem_values_iff_get (wf_composePartial _ _), mem_values_iff_get hC.wf]
    constructor
    · rintro ⟨x, hx⟩
      obtain ⟨u, _, hu⟩ := (get_compNA hN x v).mp hx
      exact ⟨u, hu⟩
    · rintro ⟨u, hu⟩
      obtain ⟨x, hx⟩ := hN.onto u (hC.dom u v hu)
      exact ⟨x, (get_compNA hN x v).mpr ⟨u, hx, hu⟩⟩
  have hvals : ∀ v, v ∈ valuesVec (composePartial N A) ↔ v ∈ valuesVec (composePartial N B) := by
    intro v; rw [hval A hA, hval B hB]; exact hv v
  refine ⟨hvals, ?_⟩
  apply IsPerm.ext (isPerm_comp_inv hA' hB' hvals) (isPerm_conj hN hπ)
  intro x hx
  obtain ⟨y, _, hy⟩ := (isPerm_conj hN hπ).tot x hx
  rw [hy]
  obtain ⟨u, w, hu, hw, hyN⟩ := (get_conj hN hπ x y).mp hy
  obtain ⟨v, hv1, hv2⟩ := (get_comp_inv hA hB u w).mp hw
  exact (get_comp_inv hA' hB' x y).mpr ⟨v, (get_compNA hN x v).mpr ⟨u, hu, hv1⟩, (get_compNA hN y v).mpr ⟨w, hyN, hv2⟩⟩

/-- **equalities survive a merge**: class `cf` (slots `Ωf`) is absorbed by class `ct`: its leader entry is overwritten by
`⟨ct.id, N⟩` with `N` a bijection from `ct`'s slots onto `cf`'s, `ct`'s entry is the identity on its slots, and `ct`'s new
generators generate the conjugates of `cf`'s.  Two embedded invocations of `cf` that compared equal before compare equal
afterwards. -/
theorem eq_survives_merge {s s' : Snap} {cf ct ct' : SClass} {N : SlotMap} (hok : ufOK s = true)
    (hclsf : cls s cf.id = some cf) (hvf : Valid cf.slots cf.gens)
    (holdf : s.uf[cf.id]? = some ⟨cf.id, identity cf.slots⟩)
    (holdt : s.uf[ct.id]? = some ⟨ct.id, identity ct.slots⟩) (hne : ct.id ≠ cf.id)
    (hN : IsBij ct.slots cf.slots N)
    (huf : s'.uf = s.uf.set cf.id ⟨ct.id, N⟩)
    (hcls' : cls s' ct.id = some ct') (hid : ct'.id = ct.id) (hslots : ct'.slots = ct.slots)
    (hvt' : Valid ct'.slots ct'.gens)
    (hgens : ∀ g ∈ cf.gens, Gen ct'.slots ct'.gens (conj N g))
    {a b : AppId} {A B : SlotMap} (ha : find s a = some ⟨cf.id, A⟩) (hb : find s b = some ⟨cf.id, B⟩)
    (hA : IsEmb cf.slots A) (hB : IsEmb cf.slots B) (h : eq s a b = some true) : eq s' a b = some true := by
  obtain ⟨hw, hl⟩ := ufOK_sound hok
  obtain ⟨hvals, hgen⟩ := (eq_true_iff hclsf hvf ha hb hA hB).mp h
  obtain ⟨hvals', hcomp⟩ := comp_inv_conj hN hA hB hvals
  -- `find` after the write: through the new entry to the target's identity entry
  have hfind : ∀ {x : AppId} {X : SlotMap}, find s x = some ⟨cf.id, X⟩ → IsEmb cf.slots X →
      find s' x = some ⟨ct.id, composePartial N X⟩ := by
    intro x X hx hX
    unfold find at hx ⊢
    rw [ufGet_eq_L] at hx ⊢
    cases hr : ufGetL s.uf (s.uf.length + 1) x.id with
    | none => rw [hr] at hx; simp at hx
    | some r =>
      rw [hr] at hx
      simp only [Option.map_some, Option.some.injEq, AppId.mk.injEq] at hx
      obtain ⟨hri, hXeq⟩ := hx
      have hwN : WF N := hN.emb.wf
      have habs : composePartial N (identity cf.slots) = N := by
        apply compose_partialId_right hwN (wf_identity _)
        · intro p hp
          have := (get_eq_some_iff (wf_identity cf.slots) p.1 p.2).mpr hp
          rw [get_identity] at this
          by_cases hh : p.1 ∈ cf.slots <;> simp [hh] at this; exact this
        · intro v hv
          obtain ⟨k, hk⟩ := (mem_values_iff_get hwN v).mp hv
          have hvΩ := hN.into k v hk
          exact List.mem_map.mpr ⟨(v, v), (get_eq_some_iff (wf_identity _) _ _).mp (get_identity_of_mem hvΩ), rfl⟩
      have hred := merge_redirect (uf := s.uf) hw (i := cf.id) (old := ⟨cf.id, identity cf.slots⟩) (e := ⟨ct.id, N⟩)
        (tgt := ⟨ct.id, identity ct.slots⟩) holdf rfl hne holdt rfl hwN habs (s.uf.length + 1) x.id r hr hri
      have hidN : composePartial (identity ct.slots) N = N := by
        apply ext (wf_composePartial _ _) hwN
        intro k
        rw [get_composePartial (wf_identity _), get_identity]
        by_cases hk : k ∈ ct.slots
        · simp [hk]
        · simp only [hk, if_false, Option.bind_none]
          cases hg : get N k with
          | none => rfl
          | some v => exact absurd (hN.emb.dom k v hg) hk
      rw [huf]
      simp only [List.length_set]
      have h2 : ufGetL (s.uf.set cf.id ⟨ct.id, N⟩) (s.uf.length + 1) x.id =
          some { id := ct.id, m := composePartial (composePartial (identity ct.slots) N) r.m } := by
        have := ufGetL_succ _ _ _ (get_fixed_fuel hred)
        simpa using this
      rw [h2]
      simp only [Option.map_some, Option.some.injEq, AppId.mk.injEq, true_and]
      rw [hidN, compose_assoc hwN (ufGetL_wf hw hr), hXeq]
  have ha' := hfind ha hA
  have hb' := hfind hb hB
  rw [← hid] at ha' hb'
  have hcls'' : cls s' ct'.id = some ct' := by rw [hid]; exact hcls'
  have hA' : IsEmb ct'.slots (composePartial N A) := by rw [hslots]; exact isEmb_comp hN hA
  have hB' : IsEmb ct'.slots (composePartial N B) := by rw [hslots]; exact isEmb_comp hN hB
  rw [eq_true_iff hcls'' hvt' ha' hb' hA' hB']
  refine ⟨hvals', ?_⟩
  rw [hcomp]
  have hN' : IsBij ct'.slots cf.slots N := by rw [hslots]; exact hN
  exact gen_conj hN' hvf hgens hgen

/-- a generated subgroup only grows with its generators -/
theorem gen_mono {Ω : List Nat} {gs gs' : List Perm} (hsub : ∀ g ∈ gs, Gen Ω gs' g) {p : Perm} (h : Gen Ω gs p) :
    Gen Ω gs' p := by
  induction h with
  | one => exact .one
  | gen hg => exact hsub _ hg
  | mul _ _ iha ihb => exact .mul iha ihb
  | inv _ ih => exact .inv ih

/-- `find` of an invocation that does not resolve to the absorbed class is untouched by the merge write -/
theorem find_unchanged_by_write {s s' : Snap} {i : Nat} {old e : AppId} (hold : s.uf[i]? = some old) (hlead : old.id = i)
    (huf : s'.uf = s.uf.set i e) {a b : AppId} (ha : find s a = some b) (hne : b.id ≠ i) : find s' a = some b := by
  unfold find at ha ⊢
  rw [ufGet_eq_L] at ha ⊢
  cases hr : ufGetL s.uf (s.uf.length + 1) a.id with
  | none => rw [hr] at ha; simp at ha
  | some r =>
    rw [hr] at ha
    simp only [Option.map_some, Option.some.injEq] at ha
    have hri : r.id ≠ i := by rw [← ha] at hne; exact hne
    have := set_unchanged (e := e) hold hlead (s.uf.length + 1) a.id r hr hri
    rw [huf]
    simp only [List.length_set]
    rw [this]
    simp [ha]

/-- **the survivor's own equalities survive the merge too**: its slots stay, its canonical forms stay, its group only grows -/
theorem eq_survives_merge_target {s s' : Snap} {ct ct' : SClass} {i : Nat} {old e : AppId}
    (hclst : cls s ct.id = some ct) (hvt : Valid ct.slots ct.gens)
    (hold : s.uf[i]? = some old) (hlead : old.id = i) (hne : ct.id ≠ i)
    (huf : s'.uf = s.uf.set i e)
    (hcls' : cls s' ct.id = some ct') (hid : ct'.id = ct.id) (hslots : ct'.slots = ct.slots)
    (hvt' : Valid ct'.slots ct'.gens) (hgens : ∀ g ∈ ct.gens, Gen ct'.slots ct'.gens g)
    {a b : AppId} {A B : SlotMap} (ha : find s a = some ⟨ct.id, A⟩) (hb : find s b = some ⟨ct.id, B⟩)
    (hA : IsEmb ct.slots A) (hB : IsEmb ct.slots B) (h : eq s a b = some true) : eq s' a b = some true := by
  obtain ⟨hvals, hgen⟩ := (eq_true_iff hclst hvt ha hb hA hB).mp h
  have ha' := find_unchanged_by_write hold hlead huf ha hne
  have hb' := find_unchanged_by_write hold hlead huf hb hne
  rw [← hid] at ha' hb'
  have hcls'' : cls s' ct'.id = some ct' := by rw [hid]; exact hcls'
  have hA' : IsEmb ct'.slots A := by rw [hslots]; exact hA
  have hB' : IsEmb ct'.slots B := by rw [hslots]; exact hB
  rw [eq_true_iff hcls'' hvt' ha' hb' hA' hB']
  refine ⟨hvals, ?_⟩
  rw [hslots] at hgens ⊢
  exact gen_mono hgens hgen

end SV.Snap
