import SlotVerif.Proofs.Variants
/-!
# The minimum over the variants

`proven_proven_pre_shape` takes, among the group-compatible variants, the first one whose weak shape has the smallest
slot-occurrence list in the lexicographic order `lexLt`.  Here: `lexLt` is a strict total order on lists of numbers
(`lexLt_irrefl`, `lexLt_trans`, `lexLt_total`), the fold returns an element of the list with a minimal key (`minFold_spec`),
and therefore **two lists with the same elements give results with the same key** (`minFold_key_eq`).  With
`variants_of_variant`: the occurrence list of the canonical shape of an e-node does not depend on which symmetric spelling the
e-node is given in (`preShape_key_of_variant`).
-/
namespace SV.Snap
open SV

theorem lexLt_irrefl : ∀ (a : List Nat), lexLt a a = false
  | [] => rfl
  | x :: xs => by simp [lexLt, lexLt_irrefl xs]

theorem lexLt_trans : ∀ (a b c : List Nat), lexLt a b = true → lexLt b c = true → lexLt a c = true
  | [], [], _, h, _ => by simp [lexLt] at h
  | [], _ :: _, [], _, h => by simp [lexLt] at h
  | [], _ :: _, _ :: _, _, _ => by simp [lexLt]
  | _ :: _, [], _, h, _ => by simp [lexLt] at h
  | _ :: _, _ :: _, [], _, h => by simp [lexLt] at h
  | x :: xs, y :: ys, z :: zs, h1, h2 => by
    simp only [lexLt] at h1 h2 ⊢
    by_cases hxy : x < y
    · by_cases hyz : y < z
      · have : x < z := Nat.lt_trans hxy hyz
        simp [this]
      · simp only [hyz, if_false] at h2
        by_cases hzy : z < y
        · simp [hzy] at h2
        · have : y = z := by omega
          subst this; simp [hxy]
    · simp only [hxy, if_false] at h1
      by_cases hyx : y < x
      · simp [hyx] at h1
      · simp only [hyx, if_false] at h1
        have hxy' : x = y := by omega
        subst hxy'
        by_cases hxz : x < z
        · simp [hxz]
        · simp only [hxz, if_false] at h2 ⊢
          by_cases hzx : z < x
          · simp [hzx] at h2
          · simp only [hzx, if_false] at h2 ⊢
            exact lexLt_trans xs ys zs h1 h2

theorem lexLt_total : ∀ (a b : List Nat), lexLt a b = false → lexLt b a = false → a = b
  | [], [], _, _ => rfl
  | [], _ :: _, h, _ => by simp [lexLt] at h
  | _ :: _, [], _, h => by simp [lexLt] at h
  | x :: xs, y :: ys, h1, h2 => by
    simp only [lexLt] at h1 h2
    by_cases hxy : x < y
    · simp [hxy] at h1
    · by_cases hyx : y < x
      · simp [hyx] at h2
      · simp only [hxy, hyx, if_false] at h1 h2
        have : x = y := by omega
        subst this
        rw [lexLt_total xs ys h1 h2]

/-- the fold of `proven_proven_pre_shape`: keep the first element with the smallest key -/
def minFold {α : Type} (key : α → List Nat) (v : α) (vs : List α) : α :=
  vs.foldl (fun best x => if lexLt (key x) (key best) then x else best) v

theorem minFold_spec {α : Type} (key : α → List Nat) : ∀ (vs : List α) (v : α),
    minFold key v vs ∈ v :: vs ∧ ∀ x ∈ v :: vs, lexLt (key x) (key (minFold key v vs)) = false
  | [], v => by simp [minFold, lexLt_irrefl]
  | w :: ws, v => by
    unfold minFold
    simp only [List.foldl_cons]
    by_cases hlt : lexLt (key w) (key v) = true
    · simp only [hlt, if_true]
      obtain ⟨hm, hmin⟩ := minFold_spec key ws w
      unfold minFold at hm hmin
      refine ⟨by simp only [List.mem_cons] at hm ⊢; rcases hm with h | h <;> simp [h], ?_⟩
      intro x hx
      rcases List.mem_cons.mp hx with rfl | hx'
      · -- v is above w, w is not below the result
        cases hc : lexLt (key x) (key (ws.foldl (fun best x => if lexLt (key x) (key best) then x else best) w)) with
        | false => rfl
        | true =>
          have := lexLt_trans _ _ _ hlt hc
          have h2 := hmin w (by simp)
          rw [h2] at this; cases this
      · exact hmin x hx'
    · have hlt' : lexLt (key w) (key v) = false := by cases h : lexLt (key w) (key v) <;> simp_all
      simp only [hlt', Bool.false_eq_true, if_false]
      obtain ⟨hm, hmin⟩ := minFold_spec key ws v
      unfold minFold at hm hmin
      refine ⟨by simp only [List.mem_cons] at hm ⊢; rcases hm with h | h <;> simp [h], ?_⟩
      intro x hx
      rcases List.mem_cons.mp hx with rfl | hx'
      · exact hmin x (by simp)
      · rcases List.mem_cons.mp hx' with rfl | hx''
        · -- w is not below v, v is not below the result
          cases hc : lexLt (key x) (key (ws.foldl (fun best x => if lexLt (key x) (key best) then x else best) v)) with
          | false => rfl
          | true =>
            -- result ≤ v (not v < result) and x < result: then x < v or …: use totality
            have h2 := hmin v (by simp)
            -- if result = v as keys or result < v: either way x < v, contradiction with hlt'
            cases hrv : lexLt (key (ws.foldl (fun best x => if lexLt (key x) (key best) then x else best) v)) (key v) with
            | true => have := lexLt_trans _ _ _ hc hrv; rw [hlt'] at this; cases this
            | false =>
              have := lexLt_total _ _ h2 hrv
              rw [← this] at hc; rw [hlt'] at hc; cases hc
        · exact hmin x (by simp [hx''])

/-- two non-empty lists with the same elements: the folds return elements with the same key -/
theorem minFold_key_eq {α : Type} (key : α → List Nat) {v v' : α} {vs vs' : List α}
    (h : ∀ x, x ∈ v :: vs ↔ x ∈ v' :: vs') : key (minFold key v vs) = key (minFold key v' vs') := by
  obtain ⟨hm, hmin⟩ := minFold_spec key vs v
  obtain ⟨hm', hmin'⟩ := minFold_spec key vs' v'
  exact lexLt_total _ _ (hmin' _ ((h _).mp hm)) (hmin _ ((h _).mpr hm'))

/-- the key `proven_proven_pre_shape` minimises -/
def shapeKey (x : Node) : List Nat := Node.allOcc (Node.weakShape x).1

theorem preShape_eq_minFold {s : Snap} {n : Node} (hcan : findNode s n = some n) :
    preShape s n = match variants s n with
      | [] => none
      | v :: vs => some (minFold shapeKey v vs) := by
  unfold preShape; rw [hcan]; rfl

/-- **the occurrence list of the canonical variant does not depend on the symmetric spelling**: an e-node with canonical
children and the same e-node with every child replaced by a symmetric copy have canonical variants with the same key -/
theorem preShape_key_of_variant {s : Snap} {n : Node} (hok : ∀ a ∈ Node.appOcc n, ChildOK s a) {ps0 : List Perm}
    (h0 : Pick ps0 ((Node.appOcc n).map (grpOf s))) (hcan : findNode s n = some n)
    (hcan' : findNode s (withApps n (applyAll (Node.appOcc n) ps0)) = some (withApps n (applyAll (Node.appOcc n) ps0)))
    {r r' : Node} (hr : preShape s n = some r) (hr' : preShape s (withApps n (applyAll (Node.appOcc n) ps0)) = some r') :
    shapeKey r = shapeKey r' := by
  rw [preShape_eq_minFold hcan] at hr
  rw [preShape_eq_minFold hcan'] at hr'
  have hmem := variants_of_variant hok h0
  cases hv : variants s n with
  | nil => rw [hv] at hr; cases hr
  | cons v vs =>
    cases hv' : variants s (withApps n (applyAll (Node.appOcc n) ps0)) with
    | nil => rw [hv'] at hr'; cases hr'
    | cons v' vs' =>
      rw [hv] at hr; rw [hv'] at hr'
      simp only [Option.some.injEq] at hr hr'
      rw [← hr, ← hr']
      apply minFold_key_eq
      intro x
      rw [← hv, ← hv']
      exact (hmem x).symm

end SV.Snap
