import SlotVerif.Model.Oracle
import SlotVerif.Proofs.ListAux
/-! Soundness of the saturation oracle: every merge is a `Cong` derivation. -/
namespace SV
open Term

namespace Term

mutual
theorem beq_eq : ∀ (a b : Term), beq a b = true → a = b
  | .mk n cs, .mk m ds, h => by
    simp only [beq, Bool.and_eq_true, decide_eq_true_eq] at h
    obtain ⟨h1, h2⟩ := h
    subst h1
    rw [beqL_eq cs ds h2]
theorem beqL_eq : ∀ (as bs : List Term), beqL as bs = true → as = bs
  | [], [], _ => rfl
  | a :: as, b :: bs, h => by
    simp only [beqL, Bool.and_eq_true] at h
    rw [beq_eq a b h.1, beqL_eq as bs h.2]
  | [], _ :: _, h => by simp [beqL] at h
  | _ :: _, [], h => by simp [beqL] at h
end

end Term

namespace Orc

/-- the loop invariant: elements with one label are related by `Cong` -/
def Inv (o : Orc) : Prop :=
  ∀ a b t u, o.univ[a]? = some t → o.univ[b]? = some u → o.find a = o.find b → Cong o.E t u

theorem lookup_some {o : Orc} {t : Term} {i : Nat} (h : o.lookup t = some i) : o.univ[i]? = some t := by
  unfold lookup at h
  cases hidx : o.index.get? (Term.key t) with
  | none => rw [hidx] at h; simp at h
  | some j =>
    rw [hidx] at h
    simp only at h
    cases hu : o.univ[j]? with
    | none => rw [hu] at h; simp at h
    | some u =>
      rw [hu] at h
      simp only at h
      by_cases hb : Term.beq u t = true
      · rw [if_pos hb] at h
        have hji : j = i := by simpa using h
        subst hji
        rw [hu, Term.beq_eq u t hb]
      · rw [if_neg hb] at h; simp at h

/-! ### renaming from matching -/

theorem applyRen_of_mem {σ : List (Nat × Nat)} (hf : ∀ p ∈ σ, ∀ q ∈ σ, p.1 = q.1 → p = q)
    {a b : Nat} (h : (a, b) ∈ σ) : applyRen σ a = b := by
  unfold applyRen
  cases hfind : σ.find? (·.1 == a) with
  | none =>
    have := List.find?_eq_none.mp hfind (a, b) h
    simp at this
  | some p =>
    have hp := List.mem_of_find?_eq_some hfind
    have hk := List.find?_some hfind
    simp at hk
    have := hf p hp (a, b) h hk
    rw [this]

/-- a good association list: functional and injective -/
def GoodRen (σ : List (Nat × Nat)) : Prop :=
  (∀ p ∈ σ, ∀ q ∈ σ, p.1 = q.1 → p = q) ∧ (∀ p ∈ σ, ∀ q ∈ σ, p.2 = q.2 → p = q)

theorem buildRen_sound : ∀ (as bs : List Nat) (acc σ : List (Nat × Nat)),
    GoodRen acc → buildRen as bs acc = some σ →
    GoodRen σ ∧ (∀ p ∈ acc, p ∈ σ) ∧ as.length = bs.length ∧ (∀ p ∈ as.zip bs, p ∈ σ)
  | [], [], acc, σ, hg, h => by
    simp [buildRen] at h; subst h; exact ⟨hg, fun p hp => hp, rfl, by simp⟩
  | a :: as, b :: bs, acc, σ, hg, h => by
    simp only [buildRen] at h
    split at h
    · rename_i p hp
      split at h
      · rename_i hb
        obtain ⟨h1, h2, h3, h4⟩ := buildRen_sound as bs acc σ hg h
        refine ⟨h1, h2, by simp [h3], ?_⟩
        intro q hq
        simp only [List.zip_cons_cons, List.mem_cons] at hq
        rcases hq with hq | hq
        · have hpm := List.mem_of_find?_eq_some hp
          have hk := List.find?_some hp
          simp at hk hb
          have : p = (a, b) := by cases p; simp at hk hb ⊢; exact ⟨hk, hb⟩
          rw [hq, ← this]; exact h2 p hpm
        · exact h4 q hq
      · simp at h
    · rename_i hnone
      split at h
      · simp at h
      · rename_i hany
        have hg' : GoodRen ((a, b) :: acc) := by
          have hna : ∀ p ∈ acc, p.1 ≠ a := by
            intro p hp he
            have := List.find?_eq_none.mp hnone p hp
            simp [he] at this
          have hnb : ∀ p ∈ acc, p.2 ≠ b := by
            intro p hp he
            have : acc.any (·.2 == b) = true := List.any_eq_true.mpr ⟨p, hp, by simp [he]⟩
            exact hany this
          constructor
          · intro p hp q hq he
            simp at hp hq
            rcases hp with hp | hp <;> rcases hq with hq | hq
            · rw [hp, hq]
            · subst hp; exact absurd he.symm (hna q hq)
            · subst hq; exact absurd he (hna p hp)
            · exact hg.1 p hp q hq he
          · intro p hp q hq he
            simp at hp hq
            rcases hp with hp | hp <;> rcases hq with hq | hq
            · rw [hp, hq]
            · subst hp; exact absurd he.symm (hnb q hq)
            · subst hq; exact absurd he (hnb p hp)
            · exact hg.2 p hp q hq he
        obtain ⟨h1, h2, h3, h4⟩ := buildRen_sound as bs ((a, b) :: acc) σ hg' h
        refine ⟨h1, fun p hp => h2 p (by simp [hp]), by simp [h3], ?_⟩
        intro q hq
        simp only [List.zip_cons_cons, List.mem_cons] at hq
        rcases hq with hq | hq
        · rw [hq]; exact h2 (a, b) (by simp)
        · exact h4 q hq
  | [], _ :: _, _, _, _, h => by simp [buildRen] at h
  | _ :: _, [], _, _, _, h => by simp [buildRen] at h

theorem mem_zip_of_mem_left {as bs : List Nat} (hl : as.length = bs.length) {a : Nat} (ha : a ∈ as) :
    ∃ b, (a, b) ∈ as.zip bs := by
  induction as generalizing bs with
  | nil => simp at ha
  | cons x t ih =>
    cases bs with
    | nil => simp at hl
    | cons y u =>
      simp at ha hl
      rcases ha with ha | ha
      · exact ⟨y, by simp [ha]⟩
      · obtain ⟨b, hb⟩ := ih hl ha
        exact ⟨b, by simp [hb]⟩

theorem instOf_sound {E : List (Term × Term)} {l r t u : Term} (hE : Cong E l r)
    (h : instOf l r t u = true) : Cong E t u := by
  unfold instOf at h
  split at h
  · rename_i σ hσ
    simp only [Bool.and_eq_true] at h
    obtain ⟨⟨hnb, hl⟩, hr⟩ := h
    obtain ⟨hg, _, hlen, hz⟩ := buildRen_sound _ _ [] σ ⟨by simp, by simp⟩ hσ
    have hl := Term.beq_eq _ _ hl
    have hr := Term.beq_eq _ _ hr
    rw [← hl, ← hr]
    apply Cong.ren (applyRen σ) _ _ hE
    · intro x hx
      unfold applyRen
      split
      · rename_i p hp
        have := List.all_eq_true.mp hnb p (List.mem_of_find?_eq_some hp)
        simpa using this
      · exact hx
    · intro x hx y hy he
      obtain ⟨bx, hbx⟩ := mem_zip_of_mem_left hlen hx
      obtain ⟨by', hby⟩ := mem_zip_of_mem_left hlen hy
      have h1 := applyRen_of_mem hg.1 (hz _ hbx)
      have h2 := applyRen_of_mem hg.1 (hz _ hby)
      rw [h1, h2] at he
      have := hg.2 _ (hz _ hbx) _ (hz _ hby) he
      simpa using (congrArg Prod.fst this)
  · simp at h

theorem axOK_sound {o : Orc} {i j : Nat} {t u : Term} (hi : o.univ[i]? = some t) (hj : o.univ[j]? = some u)
    (h : axOK o i j = true) : Cong o.E t u := by
  unfold axOK at h
  rw [hi, hj] at h
  simp only [List.any_eq_true, Bool.or_eq_true] at h
  obtain ⟨e, he, h⟩ := h
  rcases h with h | h
  · exact instOf_sound (Cong.ax (by cases e; exact he)) h
  · exact instOf_sound (Cong.symm (Cong.ax (by cases e; exact he))) h

/-! ### congruence -/

theorem mem_dedupL (l : List Nat) (x : Nat) : x ∈ dedupL l ↔ x ∈ l := by
  induction l with
  | nil => simp [dedupL]
  | cons a t ih =>
    simp only [dedupL]
    split
    · rename_i hc
      have : a ∈ dedupL t := by simpa using hc
      rw [ih]; constructor
      · intro h; simp [h]
      · intro h; simp at h; rcases h with h | h
        · subst h; exact ih.mp this
        · exact h
    · simp [ih]

theorem nodup_dedupL (l : List Nat) : (dedupL l).Nodup := by
  induction l with
  | nil => simp [dedupL]
  | cons a t ih =>
    simp only [dedupL]
    split
    · exact ih
    · rename_i hc
      rw [List.nodup_cons]
      exact ⟨by simpa using hc, ih⟩

theorem freshNames_fresh (pool : List Nat) (t u : Term) (k : Nat) :
    FreshFor (freshNames pool t u k) t u := by
  unfold freshNames FreshFor
  constructor
  · exact (nodup_dedupL _).sublist (List.take_sublist _ _)
  · intro a ha
    have := (mem_dedupL _ a).mp (List.mem_of_mem_take ha)
    simp only [List.mem_filter, Bool.and_eq_true, Bool.not_eq_true', List.contains_eq_mem,
      decide_eq_false_iff_not] at this
    exact ⟨this.2.1.1, this.2.1.2, this.2.2⟩

theorem childrenOK_sound {o : Orc} (hinv : Inv o) (names : List Nat) :
    ∀ (ds : List Nat) (as bs : List Term), childrenOK o names ds as bs = true → CongL o.E names ds as bs
  | [], [], [], _ => CongL.nil names
  | d :: ds, a :: as, b :: bs, h => by
    simp only [childrenOK, Bool.and_eq_true, decide_eq_true_eq] at h
    obtain ⟨⟨hd, hlk⟩, hrest⟩ := h
    refine CongL.cons hd ?_ (childrenOK_sound hinv names ds as bs hrest)
    split at hlk
    · rename_i ia ib ha hb
      exact hinv ia ib _ _ (lookup_some ha) (lookup_some hb) (by simpa using hlk)
    · simp at hlk
  | [], [], _ :: _, h => by simp [childrenOK] at h
  | [], _ :: _, _, h => by simp [childrenOK] at h
  | _ :: _, [], _, h => by simp [childrenOK] at h
  | _ :: _, _ :: _, [], h => by simp [childrenOK] at h

theorem congrOK_sound {o : Orc} (hinv : Inv o) {i j : Nat} {t u : Term}
    (hi : o.univ[i]? = some t) (hj : o.univ[j]? = some u) (h : congrOK o i j = true) : Cong o.E t u := by
  unfold congrOK at h
  rw [hi, hj] at h
  cases t with
  | mk n cs =>
    cases u with
    | mk m ds =>
      simp only [Bool.and_eq_true, decide_eq_true_eq] at h
      obtain ⟨hnm, _, hch⟩ := h
      subst hnm
      exact Cong.congr n cs ds _ (freshNames_fresh _ _ _ _) (childrenOK_sound hinv _ _ _ _ hch)

/-! ### the transition preserves the invariant -/

theorem find_merge (o : Orc) (i j a : Nat) (ha : a < o.cls.size) (hne : o.find i ≠ o.find j) :
    (o.merge i j).find a = if o.find a = o.find j then o.find i else o.find a := by
  unfold merge
  simp only [hne, if_false]
  unfold find
  simp [Array.getD, ha]

theorem merge_inv {o : Orc} (hinv : Inv o) (hsz : o.cls.size = o.univ.size) {i j : Nat} {t u : Term}
    (hi : o.univ[i]? = some t) (hj : o.univ[j]? = some u) (hc : Cong o.E t u) : Inv (o.merge i j) := by
  by_cases hne : o.find i = o.find j
  · unfold merge; simp only [hne, if_true]; exact hinv
  · intro a b ta tb hta htb hab
    have hE : (o.merge i j).E = o.E := by unfold merge; simp [hne]
    have hU : (o.merge i j).univ = o.univ := by unfold merge; simp [hne]
    rw [hE]; rw [hU] at hta htb
    have ha : a < o.cls.size := by
      rw [hsz]; exact (Array.getElem?_eq_some_iff.mp hta).1
    have hb : b < o.cls.size := by
      rw [hsz]; exact (Array.getElem?_eq_some_iff.mp htb).1
    rw [find_merge o i j a ha hne, find_merge o i j b hb hne] at hab
    by_cases h1 : o.find a = o.find j <;> by_cases h2 : o.find b = o.find j
    · exact hinv a b _ _ hta htb (h1.trans h2.symm)
    · rw [if_pos h1, if_neg h2] at hab
      -- a ~ j ~(new) i ~ b
      exact Cong.trans (hinv a j _ _ hta hj h1) (Cong.trans (Cong.symm hc) (hinv i b _ _ hi htb hab))
    · rw [if_neg h1, if_pos h2] at hab
      exact Cong.trans (hinv a i _ _ hta hi hab) (Cong.trans hc (hinv j b _ _ hj htb h2.symm))
    · rw [if_neg h1, if_neg h2] at hab
      exact hinv a b _ _ hta htb hab

theorem merge_size (o : Orc) (i j : Nat) :
    (o.merge i j).cls.size = o.cls.size ∧ (o.merge i j).univ = o.univ ∧ (o.merge i j).E = o.E := by
  unfold merge; split <;> simp

theorem step_inv {o : Orc} (hinv : Inv o) (hsz : o.cls.size = o.univ.size) (c : Nat × Nat) :
    Inv (o.step c) ∧ (o.step c).cls.size = (o.step c).univ.size ∧ (o.step c).E = o.E ∧ (o.step c).univ = o.univ := by
  unfold step
  split
  · rename_i hj
    have hms := merge_size o c.1 c.2
    refine ⟨?_, by rw [hms.1, hms.2.1, hsz], hms.2.2, hms.2.1⟩
    unfold justified at hj
    -- both indices must be valid for either check to succeed
    cases hi : o.univ[c.1]? with
    | none => simp [axOK, congrOK, hi] at hj
    | some t =>
      cases hj' : o.univ[c.2]? with
      | none => simp [axOK, congrOK, hi, hj'] at hj
      | some u =>
        simp only [Bool.or_eq_true] at hj
        rcases hj with hj | hj
        · exact merge_inv hinv hsz hi hj' (axOK_sound hi hj' hj)
        · exact merge_inv hinv hsz hi hj' (congrOK_sound hinv hi hj' hj)
  · exact ⟨hinv, hsz, rfl, rfl⟩

/-- **soundness of the oracle run**: whatever candidate pairs are proposed, in whatever order -/
theorem run_sound (cands : List (Nat × Nat)) {o : Orc} (hinv : Inv o) (hsz : o.cls.size = o.univ.size) :
    Inv (o.run cands) ∧ (o.run cands).E = o.E ∧ (o.run cands).univ = o.univ ∧
      (o.run cands).cls.size = (o.run cands).univ.size := by
  unfold run
  induction cands generalizing o with
  | nil => exact ⟨hinv, rfl, rfl, hsz⟩
  | cons c t ih =>
    simp only [List.foldl_cons]
    obtain ⟨h1, h2, h3, h4⟩ := step_inv hinv hsz c
    obtain ⟨r1, r2, r3, r4⟩ := ih h1 h2
    exact ⟨r1, r2.trans h3, r3.trans h4, r4⟩

/-- the initial state (every element alone) satisfies the invariant -/
theorem init_inv (E : List (Term × Term)) (pool : List Nat) (univ : Array Term) (index : Std.HashMap String Nat) :
    Inv { E := E, pool := pool, univ := univ, cls := Array.range univ.size, index := index } := by
  intro a b t u hta htb hab
  have ha : a < univ.size := (Array.getElem?_eq_some_iff.mp hta).1
  have hb : b < univ.size := (Array.getElem?_eq_some_iff.mp htb).1
  simp only [find, Array.getD] at hab
  simp [ha, hb] at hab
  subst hab
  simp only at hta htb
  rw [hta] at htb; simp at htb; subst htb
  exact Cong.refl t

end Orc
end SV
