import SlotVerif.Proofs.ShapeDecode
import SlotVerif.Proofs.ShapeIdem
/-!
Applying the bijection returned by `weak_shape` to the shape: every public number is mapped back to
the name it replaced, the binders keep their numbers.  Under the no-capture condition (no free name
of the node equals a number the shape uses for a binder — finding F9 is the violation of it) the
result has the shape of the original node (C16).
-/
namespace SV.ShapeApply
open SV SV.SlotMap SV.Field SV.ShapeDecode SV.ShapeIdem

def bindersF : Field → List Nat
  | .bind s f => s :: bindersF f
  | _ => []

theorem occ_public_or_binder : ∀ (f : Field), ∀ x ∈ Field.allOcc f, x ∈ Field.publicOcc f ∨ x ∈ bindersF f
  | .slot s, x, hx => Or.inl hx
  | .app a, x, hx => Or.inl hx
  | .lit v, x, hx => by simp [Field.allOcc] at hx
  | .bind s f, x, hx => by
    simp only [Field.allOcc, List.mem_cons] at hx
    simp only [Field.publicOcc, bindersF, List.mem_filter, List.mem_cons]
    by_cases hxs : x = s
    · exact Or.inr (Or.inl hxs)
    · rcases hx with hx | hx
      · exact absurd hx hxs
      · rcases occ_public_or_binder f x hx with h | h
        · exact Or.inl ⟨h, by simpa using hxs⟩
        · exact Or.inr (Or.inr h)

theorem mapM_some {α β} (h : α → Option β) (k : α → β) : ∀ (l : List α), (∀ p ∈ l, h p = some (k p)) →
    l.mapM h = some (l.map k)
  | [], _ => rfl
  | a :: t, hl => by
    simp only [List.mapM_cons, hl a (by simp), mapM_some h k t (fun p hp => hl p (by simp [hp]))]
    rfl

/-- `apply_slotmap` on a field: public occurrences through `g`, binders (and what they bind) untouched -/
theorem mapPublic_eq (d : Nat → Nat) : ∀ (f : Field) (g : Nat → Option Nat),
    (∀ x ∈ Field.publicOcc f, g x = some (d x)) → (∀ b ∈ bindersF f, d b = b) →
    Field.mapPublic g f = some (Field.rename d f)
  | .slot s, g, hp, _ => by simp [Field.mapPublic, Field.rename, hp s (by simp [Field.publicOcc])]
  | .lit v, g, _, _ => rfl
  | .app a, g, hp, _ => by
    simp only [Field.mapPublic, Field.rename]
    rw [mapM_some _ (fun p => (p.1, d p.2)) a.m]
    · rfl
    · intro p hpm
      rw [hp p.2 (by simp only [Field.publicOcc, valuesVec]; exact List.mem_map.mpr ⟨p, hpm, rfl⟩)]
      rfl
  | .bind s f, g, hp, hb => by
    simp only [Field.mapPublic, Field.rename]
    rw [mapPublic_eq d f]
    · simp [hb s (by simp [bindersF])]
    · intro x hx
      by_cases hxs : x = s
      · simp [hxs, hb s (by simp [bindersF])]
      · simp only [hxs, if_false]
        exact hp x (by simp only [Field.publicOcc, List.mem_filter]; exact ⟨hx, by simpa using hxs⟩)
    · intro b hbm; exact hb b (by simp [bindersF, hbm])

/-- what is known of an output field in a later state -/
structure Out (names : List Nat) (f' : Field) (lo : Nat) (st : WS) : Prop where
  pub : ∀ x ∈ Field.publicOcc f', SlotMap.get st.1 (decode names x) = some x
  bnd : ∀ b ∈ bindersF f', 4 * lo ≤ b ∧ b < 4 * st.2 ∧ ∀ t, SlotMap.get st.1 t ≠ some b
  lt : ∀ x ∈ Field.allOcc f', x < 4 * names.length

theorem Out.later {names : List Nat} {f' : Field} {lo : Nat} {st st3 : WS} (h : Out names f' lo st) (hf : Frame st st3)
    (ext : List Nat) : Out (names ++ ext) f' lo st3 where
  pub := fun x hx => by
    have hx' : x ∈ Field.allOcc f' := by
      clear h hf
      induction f' with
      | slot s => exact hx
      | app a => exact hx
      | lit v => simp [Field.publicOcc] at hx
      | bind s f ih =>
        simp only [Field.publicOcc, List.mem_filter] at hx
        simp only [Field.allOcc, List.mem_cons]; exact Or.inr (ih hx.1)
    rw [decode_append _ (h.lt x hx')]
    exact hf.keep _ _ (h.pub x hx)
  bnd := fun b hb => by
    obtain ⟨h1, h2, h3⟩ := h.bnd b hb
    refine ⟨h1, Nat.lt_of_lt_of_le h2 (Nat.mul_le_mul_left 4 hf.cnt), ?_⟩
    intro t ht
    cases hg : SlotMap.get st.1 t with
    | some w =>
      have := hf.keep t w hg
      rw [this] at ht
      exact h3 t (by rw [hg]; exact ht)
    | none =>
      rcases hf.new t hg with h' | ⟨w, hw, hl, _⟩
      · rw [h'] at ht; simp at ht
      · rw [hw] at ht
        have : w = b := by simpa using ht
        omega
  lt := fun x hx => by
    have := h.lt x hx
    simp only [List.length_append]; omega

theorem valsLt_addSlot {st : WS} (hw : WF st.1) (hv : ValsLt st) (s : Nat) : ValsLt (addSlot s st).2 := by
  intro t w ht
  simp only [addSlot] at ht ⊢
  rw [get_insert hw] at ht
  by_cases hts : t = s
  · simp only [hts, if_true, Option.some.injEq] at ht; omega
  · simp only [hts, if_false] at ht
    have := hv t w ht; omega

theorem out_onSeeSlot {st : WS} {names : List Nat} (h : ShapeDecode.Inv st names) (s : Nat) :
    SlotMap.get (onSeeSlot s st).2.1 (decode (names ++ extSee s st) (onSeeSlot s st).1) = some (onSeeSlot s st).1 := by
  obtain ⟨_, d1, _⟩ := inv_onSeeSlot h s
  rw [d1]
  unfold onSeeSlot
  cases hg : SlotMap.get st.1 s with
  | some v => exact hg
  | none => simp only [addSlot]; rw [get_insert h.wf]; simp

theorem out_wsValues : ∀ (l : List (Nat × Nat)) {st : WS} {names : List Nat}, ShapeDecode.Inv st names →
    ∀ p ∈ (wsValues l st).1, SlotMap.get (wsValues l st).2.1 (decode (names ++ extValues l st) p.2) = some p.2
  | [], st, names, h => by simp [wsValues]
  | (k, v) :: t, st, names, h => by
    simp only [wsValues, extValues]
    obtain ⟨i1, d1, l1⟩ := inv_onSeeSlot h v
    intro p hp
    simp only [List.mem_cons] at hp
    rcases hp with hp | hp
    · subst hp
      simp only
      rw [← List.append_assoc, decode_append _ (by rw [i1.len]; exact l1)]
      exact (frame_wsValues t i1.wf).keep _ _ (out_onSeeSlot h v)
    · have := out_wsValues t i1 p hp
      rw [List.append_assoc] at this
      exact this

/-- the main simulation: after processing a field, its public numbers are in the state under their names and its
binder numbers are values of no entry -/
theorem out_weakShape : ∀ (f : Field) {st : WS} {names : List Nat}, ShapeDecode.Inv st names → ValsLt st →
    Out (names ++ extField f st) (Field.weakShape f st).1 st.2 (Field.weakShape f st).2
  | .slot s, st, names, h, _ => by
    simp only [Field.weakShape, extField]
    obtain ⟨i1, _, l1⟩ := inv_onSeeSlot h s
    refine ⟨?_, by intro b hb; simp [bindersF] at hb, ?_⟩
    · intro x hx
      simp only [Field.publicOcc, List.mem_singleton] at hx
      subst hx; exact out_onSeeSlot h s
    · intro x hx
      simp only [Field.allOcc, List.mem_singleton] at hx
      subst hx; rw [i1.len]; exact l1
  | .lit v, st, names, h, _ => by
    simp only [Field.weakShape, extField]
    exact ⟨by intro x hx; simp [Field.publicOcc] at hx, by intro b hb; simp [bindersF] at hb,
      by intro x hx; simp [Field.allOcc] at hx⟩
  | .app a, st, names, h, _ => by
    simp only [Field.weakShape, extField]
    obtain ⟨i1, _, l1, _⟩ := inv_wsValues a.m h
    refine ⟨?_, by intro b hb; simp [bindersF] at hb, ?_⟩
    · intro x hx
      simp only [Field.publicOcc, valuesVec, List.mem_map] at hx
      obtain ⟨p, hp, rfl⟩ := hx
      exact out_wsValues a.m h p hp
    · intro x hx
      simp only [Field.allOcc, valuesVec, List.mem_map] at hx
      obtain ⟨p, hp, rfl⟩ := hx
      rw [i1.len]; exact l1 p hp
  | .bind s f, st, names, h, hv => by
    simp only [Field.weakShape, extField]
    obtain ⟨i1, d1, l1⟩ := inv_addSlot h s
    have hv1 := valsLt_addSlot h.wf hv s
    have ih := out_weakShape f i1 hv1
    obtain ⟨i2, _, l2, m2⟩ := inv_weakShape f i1
    have happ : names ++ [s] ++ extField f (addSlot s st).2 = names ++ s :: extField f (addSlot s st).2 := by simp
    rw [happ] at ih i2
    have hfr := frame_weakShape f i1.wf
    generalize hr : Field.weakShape f (addSlot s st).2 = r at ih i2 l2 m2 hfr
    have hc1 : (addSlot s st).2.2 = st.2 + 1 := rfl
    have hc0 : (addSlot s st).1 = 4 * st.2 := rfl
    -- the binder's entry is still there at the end of the body
    have hkey : SlotMap.get r.2.1 s = some (4 * st.2) := by
      apply hfr.keep
      simp only [addSlot]; rw [get_insert h.wf]; simp
    -- entries of the final state at other keys
    have hother : ∀ t, t ≠ s → ∀ w, SlotMap.get r.2.1 t = some w → w < 4 * st.2 ∨ 4 * (st.2 + 1) ≤ w := by
      intro t hts w hw
      cases hg : SlotMap.get (addSlot s st).2.1 t with
      | some w' =>
        have := hfr.keep t w' hg
        rw [this] at hw
        have hww : w' = w := by simpa using hw
        simp only [addSlot] at hg
        rw [get_insert h.wf] at hg
        simp only [hts, if_false] at hg
        left; rw [← hww]; exact hv t w' hg
      | none =>
        rcases hfr.new t hg with h' | ⟨w', hw', hl, _⟩
        · rw [h'] at hw; simp at hw
        · rw [hw'] at hw
          have : w' = w := by simpa using hw
          right; rw [hc1] at hl; omega
    -- the restored map agrees with the body's final map off `s`
    have hrest : ∀ (m' : SlotMap), (∀ t, t ≠ s → SlotMap.get m' t = SlotMap.get r.2.1 t) →
        (∀ w, SlotMap.get m' s = some w → w < 4 * st.2) →
        Out (names ++ s :: extField f (addSlot s st).2) (.bind (4 * st.2) r.1) st.2 (m', r.2.2) := by
      intro m' hoff hs
      refine ⟨?_, ?_, ?_⟩
      · intro x hx
        simp only [Field.publicOcc, List.mem_filter] at hx
        have hxc : x ≠ 4 * st.2 := by simpa using hx.2
        have hp := ih.pub x hx.1
        have hne : decode (names ++ s :: extField f (addSlot s st).2) x ≠ s := by
          intro he
          rw [he, hkey] at hp
          exact hxc (Option.some.inj hp).symm
        simp only
        rw [hoff _ hne]; exact hp
      · intro b hb
        simp only [bindersF, List.mem_cons] at hb
        rcases hb with hb | hb
        · subst hb
          refine ⟨Nat.le_refl _, by rw [hc1] at m2; omega, ?_⟩
          intro t ht
          simp only at ht
          by_cases hts : t = s
          · subst hts; have := hs _ ht; omega
          · rw [hoff t hts] at ht
            rcases hother t hts _ ht with h' | h' <;> omega
        · obtain ⟨b1, b2, b3⟩ := ih.bnd b hb
          rw [hc1] at b1
          refine ⟨by omega, b2, ?_⟩
          intro t ht
          simp only at ht
          by_cases hts : t = s
          · subst hts; have := hs _ ht; omega
          · rw [hoff t hts] at ht; exact b3 t ht
      · intro x hx
        simp only [Field.allOcc, List.mem_cons] at hx
        rcases hx with hx | hx
        · subst hx
          have := i2.len
          rw [this]; rw [hc1] at m2; omega
        · exact ih.lt x hx
    rw [hc0]
    cases hsh : SlotMap.get st.1 s with
    | some old =>
      simp only
      apply hrest
      · intro t hts; rw [get_insert i2.wf]; simp [hts]
      · intro w hw
        rw [get_insert i2.wf] at hw
        simp only [if_true, Option.some.injEq] at hw
        subst hw; exact hv s old hsh
    | none =>
      simp only
      apply hrest
      · intro t hts; rw [get_remove i2.wf]; simp [hts]
      · intro w hw
        rw [get_remove i2.wf] at hw
        simp at hw

theorem frame_fields : ∀ (fs : List Field) {st : WS}, WF st.1 → Frame st (Node.weakShapeFields fs st).2
  | [], st, h => Frame.refl h
  | g :: t, st, h => by
    simp only [Node.weakShapeFields]
    have h1 := frame_weakShape g h
    exact h1.trans (frame_fields t h1.wf)

theorem out_fields : ∀ (fs : List Field) {st : WS} {names : List Nat}, ShapeDecode.Inv st names → ValsLt st →
    ∀ f' ∈ (Node.weakShapeFields fs st).1, ∃ lo,
      Out (names ++ extFields fs st) f' lo (Node.weakShapeFields fs st).2
  | [], st, names, _, _ => by simp [Node.weakShapeFields]
  | f :: t, st, names, h, hv => by
    simp only [Node.weakShapeFields, extFields]
    obtain ⟨i1, _, _, _⟩ := inv_weakShape f h
    have hfr := frame_weakShape f h.wf
    have hv1 := valsLt_of_frame hv hfr
    intro f' hf'
    simp only [List.mem_cons] at hf'
    rcases hf' with hf' | hf'
    · subst hf'
      have o := out_weakShape f h hv
      have hfr2 := frame_fields t i1.wf
      have := o.later hfr2 (extFields t (Field.weakShape f st).2)
      rw [List.append_assoc] at this
      exact ⟨st.2, this⟩
    · obtain ⟨lo, o⟩ := out_fields t i1 hv1 f' hf'
      rw [List.append_assoc] at o
      exact ⟨lo, o⟩

/-! ### node level -/

def bindersN (n : Node) : List Nat := n.fields.flatMap bindersF

/-- what `apply_slotmap(bijection)` does to a shape number: public numbers go back to their names, the rest stays -/
def back (n : Node) (x : Nat) : Nat := (SlotMap.get (Node.weakShape n).2 x).getD x

theorem inj_of_inv {st : WS} {names : List Nat} (h : ShapeDecode.Inv st names) : Inj st.1 := by
  unfold Inj valuesVec
  apply nodup_map_on
  · intro p hp q hq he
    have gp := (get_eq_some_iff h.wf p.1 p.2).mpr hp
    have gq := (get_eq_some_iff h.wf q.1 q.2).mpr hq
    have dp := (h.dec _ _ gp).2
    have dq := (h.dec _ _ gq).2
    rw [he, dq] at dp
    have : q.1 = p.1 := by simpa using dp
    cases p; cases q; simp only at this he ⊢; rw [this, he]
  · have := wf_nodup h.wf
    unfold keys at this
    exact nodup_of_map _ this

theorem final_inv (n : Node) : ShapeDecode.Inv (Node.weakShapeFields n.fields ([], 0)).2 (namesOf n) := by
  have := (inv_weakShapeFields n.fields inv_init).1
  simpa [namesOf] using this

/-- the returned bijection maps every public number of the shape to the name it replaced, and no binder number at all -/
theorem bij_spec (n : Node) : ∀ f' ∈ (Node.weakShape n).1.fields,
    (∀ x ∈ Field.publicOcc f', SlotMap.get (Node.weakShape n).2 x = some (decode (namesOf n) x)) ∧
    (∀ b ∈ bindersF f', SlotMap.get (Node.weakShape n).2 b = none) := by
  intro f' hf'
  have hinv := final_inv n
  have hi := inj_of_inv hinv
  have hv0 : ValsLt (([], 0) : WS) := fun _ _ h => by simp [SlotMap.get] at h
  obtain ⟨lo, o⟩ := out_fields n.fields inv_init hv0 f' (by simpa [Node.weakShape] using hf')
  simp only [List.nil_append] at o
  simp only [Node.weakShape]
  constructor
  · intro x hx
    exact (get_inverse hinv.wf hi _ _).mpr (o.pub x hx)
  · intro b hb
    rw [get_inverse_none hinv.wf hi]
    intro hm
    obtain ⟨p, hp, he⟩ := List.mem_map.mp hm
    have := (get_eq_some_iff hinv.wf p.1 p.2).mpr hp
    rw [he] at this
    exact (o.bnd b hb).2.2 p.1 this

/-- **applying the returned bijection to the shape** succeeds and yields the shape with its public numbers renamed
back to the original names and its binders (with the occurrences they bind) left as numbered -/
theorem apply_eq (n : Node) :
    Node.applySlotmap (Node.weakShape n).1 (Node.weakShape n).2 = some (Node.rename (back n) (Node.weakShape n).1) := by
  unfold Node.applySlotmap Node.rename
  rw [mapM_some _ (Field.rename (back n))]
  · rfl
  · intro f' hf'
    obtain ⟨h1, h2⟩ := bij_spec n f' hf'
    apply mapPublic_eq
    · intro x hx; unfold back; rw [h1 x hx]; rfl
    · intro b hb; unfold back; rw [h2 b hb]; rfl

theorem back_public (n : Node) : ∀ x ∈ Node.publicOcc (Node.weakShape n).1, back n x = decode (namesOf n) x := by
  intro x hx
  simp only [Node.publicOcc, List.mem_flatMap] at hx
  obtain ⟨f', hf', hx⟩ := hx
  unfold back; rw [(bij_spec n f' hf').1 x hx]; rfl

theorem back_binder (n : Node) : ∀ b ∈ bindersN (Node.weakShape n).1, back n b = b := by
  intro b hb
  simp only [bindersN, List.mem_flatMap] at hb
  obtain ⟨f', hf', hb⟩ := hb
  unfold back; rw [(bij_spec n f' hf').2 b hb]; rfl

/-- no free name of the node is a number that its shape uses for a binder (`F9` is a node violating this) -/
def NoCapture (n : Node) : Prop :=
  ∀ x ∈ Node.publicOcc (Node.weakShape n).1, decode (namesOf n) x ∉ bindersN (Node.weakShape n).1

instance (n : Node) : Decidable (NoCapture n) := by unfold NoCapture; infer_instance

theorem back_injOn (n : Node) (hnc : NoCapture n) : Shape.InjOn (back n) (Node.allOcc (Node.weakShape n).1) := by
  have hsplit : ∀ x ∈ Node.allOcc (Node.weakShape n).1,
      x ∈ Node.publicOcc (Node.weakShape n).1 ∨ x ∈ bindersN (Node.weakShape n).1 := by
    intro x hx
    simp only [Node.allOcc, List.mem_flatMap] at hx
    obtain ⟨f', hf', hx⟩ := hx
    rcases occ_public_or_binder f' x hx with h | h
    · left; simp only [Node.publicOcc, List.mem_flatMap]; exact ⟨f', hf', h⟩
    · right; simp only [bindersN, List.mem_flatMap]; exact ⟨f', hf', h⟩
  have hinv := final_inv n
  have hi := inj_of_inv hinv
  -- a public number is the value of the final renaming at its name
  have hval : ∀ x ∈ Node.publicOcc (Node.weakShape n).1,
      SlotMap.get (Node.weakShapeFields n.fields ([], 0)).2.1 (decode (namesOf n) x) = some x := by
    intro x hx
    simp only [Node.publicOcc, List.mem_flatMap] at hx
    obtain ⟨f', hf', hx⟩ := hx
    have := (bij_spec n f' hf').1 x hx
    simp only [Node.weakShape] at this
    exact (get_inverse hinv.wf hi _ _).mp this
  intro a ha b hb hab
  rcases hsplit a ha with pa | ba <;> rcases hsplit b hb with pb | bb
  · rw [back_public n a pa, back_public n b pb] at hab
    have h1 := hval a pa
    have h2 := hval b pb
    rw [hab, h2] at h1
    exact (Option.some.inj h1).symm
  · rw [back_public n a pa, back_binder n b bb] at hab
    exact absurd (hab ▸ bb) (hnc a pa)
  · rw [back_binder n a ba, back_public n b pb] at hab
    exact absurd (hab ▸ ba) (hnc b pb)
  · rw [back_binder n a ba, back_binder n b bb] at hab; exact hab

end SV.ShapeApply
