import SlotVerif.Proofs.Group
import SlotVerif.Proofs.Snapshot
import SlotVerif.Proofs.Dedup
/-!
`EGraph::eq` on one class is membership in the class group: the link between the snapshot model of
`eq` (C01/C02/C09) and the Schreier–Sims correctness theorems (C10).
-/
namespace SV.Snap
open SV SV.SlotMap SV.Grp

theorem mem_values_of_isPerm {Ω : List Nat} {p : Perm} (hp : IsPerm Ω p) (y : Nat) : y ∈ valuesVec p ↔ y ∈ Ω := by
  constructor
  · intro hy
    obtain ⟨q, hq, rfl⟩ := List.mem_map.mp hy
    have hg := (get_eq_some_iff hp.wf q.1 q.2).mpr hq
    obtain ⟨y', hy', hg'⟩ := hp.tot q.1 (hp.dom _ _ hg)
    rw [hg] at hg'
    rw [Option.some.inj hg']; exact hy'
  · intro hy
    obtain ⟨x, hx⟩ := hp.surj y hy
    exact List.mem_map.mpr ⟨(x, y), (get_eq_some_iff hp.wf _ _).mp hx, rfl⟩

end SV.Snap
