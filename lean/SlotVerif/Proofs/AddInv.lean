import SlotVerif.Proofs.Add
/-
First components of "the snapshot invariant `checkInv` survives a modelled insertion" (`Model/SnapInv.lean`,
`Model/Add.lean`): the union-find half.  `ufOK` of the state before gives `ufOK` of the state after — every entry is a
well-formed map and every leader's entry is a partial identity; the new entry is `identity F`.  The class half
(`leaderOK`, `nodeOK`, `shapesUnique`, `childrenOK` of the new class) is still decided per run by `checkInv` on the dump.
-/
namespace SV
namespace Snap
open SlotMap

theorem ufOK_iff (s : Snap) : ufOK s = true ↔
    (∀ e ∈ s.uf, wfb e.m = true) ∧ ∀ (i : Nat) (e : AppId), s.uf[i]? = some e → e.id = i → isPartialId e.m = true := by
  unfold ufOK isPartialId
  simp only [Bool.and_eq_true, List.all_eq_true, List.mem_range]
  constructor
  · rintro ⟨h1, h2⟩
    refine ⟨h1, ?_⟩
    intro i e he hid
    have hi : i < s.uf.length := by
      rcases Nat.lt_or_ge i s.uf.length with h | h
      · exact h
      · rw [List.getElem?_eq_none h] at he; cases he
    have := h2 i hi
    rw [he] at this
    simp only [hid, beq_self_eq_true, if_true, List.all_eq_true] at this
    exact this
  · rintro ⟨h1, h2⟩
    refine ⟨h1, ?_⟩
    intro i _
    cases he : s.uf[i]? with
    | none => rfl
    | some e =>
      dsimp only
      split
      · rename_i hid
        have := h2 i e he (by simpa using hid)
        simpa only [List.all_eq_true] using this
      · rfl

/-- the union-find half of the invariant survives a modelled insertion -/
theorem add_keeps_ufOK {s s' : Snap} {n syn : Node} {f2o : SlotMap} {data : String} {a : AppId}
    (hok : ufOK s = true) (h : addNew s n f2o syn data = some (s', a)) : ufOK s' = true := by
  rw [ufOK_iff] at hok ⊢
  rw [addNew_uf h]
  obtain ⟨h1, h2⟩ := hok
  refine ⟨?_, ?_⟩
  · intro e he
    rcases List.mem_append.mp he with he | he
    · exact h1 e he
    · simp only [List.mem_singleton] at he
      subst he
      exact wfb_of_wf _ (wf_identity _)
  · intro i e he hid
    rcases Nat.lt_or_ge i s.uf.length with hi | hi
    · rw [List.getElem?_append_left hi] at he
      exact h2 i e he hid
    · rw [List.getElem?_append_right hi] at he
      have h0 : i - s.uf.length = 0 := by
        rcases Nat.eq_zero_or_pos (i - s.uf.length) with h0 | h0
        · exact h0
        · rw [List.getElem?_eq_none (by simp only [List.length_singleton]; omega)] at he; cases he
      rw [h0] at he
      simp only [List.getElem?_cons_zero, Option.some.injEq] at he
      subst he
      exact identity_isPartialId _

/-- … and so does it survive `add` as a whole (the hit leaves the state alone) -/
theorem add_whole_keeps_ufOK {s s' : Snap} {n syn : Node} {f2o : SlotMap} {data : String} {a : AppId}
    (hok : ufOK s = true) (h : add s n f2o syn data = some (s', a)) : ufOK s' = true := by
  unfold add at h
  split at h
  · simp only [Option.some.injEq, Prod.mk.injEq] at h
    rw [← h.1]; exact hok
  · exact add_keeps_ufOK hok h

/-- … and every sequence of modelled insertions -/
theorem inserts_keep_ufOK {s s'' : Snap} (hok : ufOK s = true) (hi : Inserts s s'') : ufOK s'' = true := by
  induction hi with
  | refl s => exact hok
  | step h _ ih => exact ih (add_keeps_ufOK hok h)

end Snap
end SV
