import SlotVerif.Proofs.Add
import SlotVerif.Proofs.AddGroup
/-
First components of "the snapshot invariant `checkInv` survives a modelled insertion" (`Model/SnapInv.lean`,
`Model/Add.lean`): the union-find half.  `ufOK` of the state before gives `ufOK` of the state after — every entry is a
well-formed map and every leader's entry is a partial identity; the new entry is `identity F`.  The class half
(`leaderOK`, `nodeOK`, `shapesUnique`, `childrenOK` of the new class) is still decided per run by `checkInv` on the dump.
-/
namespace SV
namespace Snap
open SlotMap

theorem ufOK_iff (s : Snap) : ufOK s = true ↔
    (∀ e ∈ s.uf, wfb e.m = true) ∧ ∀ (i : Nat) (e : AppId), s.uf[i]? = some e → e.id = i → isPartialId e.m = true := by
  unfold ufOK isPartialId
  simp only [Bool.and_eq_true, List.all_eq_true, List.mem_range]
  constructor
  · rintro ⟨h1, h2⟩
    refine ⟨h1, ?_⟩
    intro i e he hid
    have hi : i < s.uf.length := by
      rcases Nat.lt_or_ge i s.uf.length with h | h
      · exact h
      · rw [List.getElem?_eq_none h] at he; cases he
    have := h2 i hi
    rw [he] at this
    simp only [hid, beq_self_eq_true, if_true, List.all_eq_true] at this
    exact this
  · rintro ⟨h1, h2⟩
    refine ⟨h1, ?_⟩
    intro i _
    cases he : s.uf[i]? with
    | none => rfl
    | some e =>
      dsimp only
      split
      · rename_i hid
        have := h2 i e he (by simpa using hid)
        simpa only [List.all_eq_true] using this
      · rfl

/-- the union-find half of the invariant survives a modelled insertion -/
theorem add_keeps_ufOK {s s' : Snap} {n syn : Node} {f2o : SlotMap} {data : String} {a : AppId}
    (hok : ufOK s = true) (h : addNew s n f2o syn data = some (s', a)) : ufOK s' = true := by
  rw [ufOK_iff] at hok ⊢
  rw [addNew_uf h]
  obtain ⟨h1, h2⟩ := hok
  refine ⟨?_, ?_⟩
  · intro e he
    rcases List.mem_append.mp he with he | he
    · exact h1 e he
    · simp only [List.mem_singleton] at he
      subst he
      exact wfb_of_wf _ (wf_identity _)
  · intro i e he hid
    rcases Nat.lt_or_ge i s.uf.length with hi | hi
    · rw [List.getElem?_append_left hi] at he
      exact h2 i e he hid
    · rw [List.getElem?_append_right hi] at he
      have h0 : i - s.uf.length = 0 := by
        rcases Nat.eq_zero_or_pos (i - s.uf.length) with h0 | h0
        · exact h0
        · rw [List.getElem?_eq_none (by simp only [List.length_singleton]; omega)] at he; cases he
      rw [h0] at he
      simp only [List.getElem?_cons_zero, Option.some.injEq] at he
      subst he
      exact identity_isPartialId _

/-- … and so does it survive `add` as a whole (the hit leaves the state alone) -/
theorem add_whole_keeps_ufOK {s s' : Snap} {n syn : Node} {f2o : SlotMap} {data : String} {a : AppId}
    (hok : ufOK s = true) (h : add s n f2o syn data = some (s', a)) : ufOK s' = true := by
  unfold add at h
  split at h
  · simp only [Option.some.injEq, Prod.mk.injEq] at h
    rw [← h.1]; exact hok
  · exact add_keeps_ufOK hok h

/-- … and every sequence of modelled insertions -/
theorem inserts_keep_ufOK {s s'' : Snap} (hok : ufOK s = true) (hi : Inserts s s'') : ufOK s'' = true := by
  induction hi with
  | refl s => exact hok
  | step h _ ih => exact ih (add_keeps_ufOK hok h)

/-! ## the leader half: every class of the state after an insertion has the union-find entry `leaderOK` asks for -/

theorem sorted_ext : ∀ (l₁ l₂ : List Nat), l₁.Pairwise (· < ·) → l₂.Pairwise (· < ·) → (∀ a, a ∈ l₁ ↔ a ∈ l₂) → l₁ = l₂
  | [], [], _, _, _ => rfl
  | [], b :: u, _, _, h => by have := (h b).mpr (List.mem_cons_self ..); cases this
  | a :: t, [], _, _, h => by have := (h a).mp (List.mem_cons_self ..); cases this
  | a :: t, b :: u, h1, h2, h => by
    rw [List.pairwise_cons] at h1 h2
    have hab : a = b := by
      have ha := (h a).mp (List.mem_cons_self ..)
      have hb := (h b).mpr (List.mem_cons_self ..)
      rcases List.mem_cons.mp ha with ha | ha
      · exact ha
      · rcases List.mem_cons.mp hb with hb | hb
        · exact hb.symm
        · have := h2.1 a ha; have := h1.1 b hb; omega
    subst hab
    have ht : t = u := by
      apply sorted_ext t u h1.2 h2.2
      intro x
      constructor
      · intro hx
        rcases List.mem_cons.mp ((h x).mp (List.mem_cons_of_mem _ hx)) with he | he
        · have := h1.1 x hx; omega
        · exact he
      · intro hx
        rcases List.mem_cons.mp ((h x).mpr (List.mem_cons_of_mem _ hx)) with he | he
        · have := h2.1 x hx; omega
        · exact he
    rw [ht]

/-- the identity on the key list of a well-formed map has exactly that key list -/
theorem keys_identity_keys {m : SlotMap} (hm : WF m) : keys (identity (keys m)) = keys m := by
  apply sorted_ext
  · have := wf_identity (keys m)
    unfold WF at this
    unfold keys
    exact List.pairwise_map.mpr this
  · unfold WF at hm
    unfold keys
    exact List.pairwise_map.mpr hm
  · intro x; exact Grp.mem_keys_identity _ x

/-- every class after a modelled insertion is a class from before, unchanged, or the new class -/
theorem add_classes {s s' : Snap} {n syn : Node} {f2o : SlotMap} {data : String} {a : AppId}
    (hok : AddOK s) (h : addNew s n f2o syn data = some (s', a)) {c : SClass} (hc : c ∈ s'.classes) :
    c ∈ s.classes ∨ (c.id = s.uf.length ∧ c.slots = keys f2o) := by
  obtain ⟨sh, sh2, bij, bij2, perms, hs, _, _, _, _, _, _, _⟩ := addNew_form h
  rw [hs] at hc
  unfold setNew allocClass at hc
  simp only [List.mem_map, List.mem_append, List.mem_singleton] at hc
  obtain ⟨d, hd, rfl⟩ := hc
  rcases hd with hd | hd
  · left
    have hne : (d.id == s.uf.length) = false := by
      have := hok.2 d hd
      simp only [beq_eq_false_iff_ne, ne_eq]; omega
    simp only [hne]
    exact hd
  · right
    subst hd
    simp

/-- the leader half of the invariant survives a modelled insertion -/
theorem add_keeps_leaderOK {s s' : Snap} {n syn : Node} {f2o : SlotMap} {data : String} {a : AppId}
    (hok : AddOK s) (hl : ∀ c ∈ s.classes, leaderOK s c = true) (h : addNew s n f2o syn data = some (s', a)) :
    ∀ c ∈ s'.classes, leaderOK s' c = true := by
  intro c hc
  obtain ⟨_, _, _, _, _, _, _, hwf, _, _, _, _, _⟩ := addNew_form h
  have huf := addNew_uf h
  rcases add_classes hok h hc with hold | ⟨hid, hslots⟩
  · have hlt : c.id < s.uf.length := hok.2 c hold
    have hentry : s'.uf[c.id]? = s.uf[c.id]? := by rw [huf, List.getElem?_append_left hlt]
    have := hl c hold
    unfold leaderOK isAlive at this ⊢
    rw [hentry]
    exact this
  · have hentry : s'.uf[c.id]? = some { id := s.uf.length, m := identity (keys f2o) } := by
      rw [huf, hid, List.getElem?_append_right (Nat.le_refl _)]
      simp
    unfold leaderOK isAlive
    rw [hentry]
    simp only [hid, beq_self_eq_true, if_true, hslots, keys_identity_keys (wf_of_wfb _ hwf)]

/-- the group half: every class after a modelled insertion stores generators that are permutations of its slots -/
theorem add_keeps_groups_valid {s s' : Snap} {n syn : Node} {f2o : SlotMap} {data : String} {a : AppId}
    (hok : AddOK s) (hg : ∀ c ∈ s.classes, Grp.Valid c.slots c.gens) (h : addNew s n f2o syn data = some (s', a)) :
    ∀ c ∈ s'.classes, Grp.Valid c.slots c.gens := by
  intro c hc
  obtain ⟨sh, sh2, bij, bij2, perms, hs, _, _, _, _, _, _, hperms⟩ := addNew_form h
  rw [hs] at hc
  unfold setNew allocClass at hc
  simp only [List.mem_map, List.mem_append, List.mem_singleton] at hc
  obtain ⟨d, hd, rfl⟩ := hc
  rcases hd with hd | hd
  · have hne : (d.id == s.uf.length) = false := by
      have := hok.2 d hd
      simp only [beq_eq_false_iff_ne, ne_eq]; omega
    simp only [hne]
    exact hg d hd
  · subst hd
    simp only [beq_self_eq_true, if_true]
    exact (addAll_generators (permsOK_valid hperms)).1

/-! ## the node half, first part: what the new class stores is the weak shape of a node, and its slot list ascends strictly -/

theorem sortedStrict_keys : ∀ (m : SlotMap), wfb m = true → sortedStrict (keys m) = true
  | [], _ => rfl
  | [_], _ => rfl
  | a :: b :: t, h => by
    simp only [wfb, Bool.and_eq_true, decide_eq_true_eq] at h
    simp only [keys, List.map_cons, sortedStrict, Bool.and_eq_true, decide_eq_true_eq]
    exact ⟨h.1, sortedStrict_keys (b :: t) h.2⟩

/-- the stored entry of the new class is `weakShape` of some node -/
theorem addNew_stored {s s' : Snap} {n syn : Node} {f2o : SlotMap} {data : String} {a : AppId}
    (h : addNew s n f2o syn data = some (s', a)) :
    ∃ (n1 : Node) (perms : List Perm),
      s' = setNew (allocClass s (keys f2o) syn data) s.uf.length (Node.weakShape n1)
        (Grp.generators (addAll (Grp.mk (identity (keys f2o)) []) perms)) ∧
      lookupShape (allocClass s (keys f2o) syn data) (Node.weakShape n1).1 (Node.weakShape n1).2 = none := by
  unfold addNew at h
  split at h
  · simp at h
  · split at h
    · simp at h
    · split at h
      · simp at h
      · split at h
        · simp at h
        · dsimp only at h
          split at h
          · rename_i sh2 bij2 n1 hsh hpre
            split at h
            · simp at h
            · split at h
              · simp at h
              · rename_i hmiss2
                split at h
                · simp at h
                · simp only [Option.some.injEq, Prod.mk.injEq] at h
                  refine ⟨n1, selfSyms (allocClass s (keys f2o) syn data) n1, ?_, ?_⟩
                  · unfold shape at hsh
                    rw [hpre] at hsh
                    simp only [Option.map_some, Option.some.injEq] at hsh
                    rw [hsh]
                    exact h.1.symm
                  · unfold shape at hsh
                    rw [hpre] at hsh
                    simp only [Option.map_some, Option.some.injEq] at hsh
                    rw [hsh]
                    exact hmiss2
          · simp at h

/-- a shape `lookupShape` misses is stored in no class -/
theorem not_stored_of_miss {s : Snap} {sh : Node} {bij : SlotMap} (h : lookupShape s sh bij = none) :
    sh ∉ s.classes.flatMap fun c => c.nodes.map (·.1) := by
  intro hin
  obtain ⟨c, hc, hsh⟩ := List.mem_flatMap.mp hin
  obtain ⟨e, he, rfl⟩ := List.mem_map.mp hsh
  unfold lookupShape at h
  rw [List.findSome?_eq_none_iff] at h
  have hc' := h c hc
  cases hf : c.nodes.find? (·.1 == e.1) with
  | none =>
    rw [List.find?_eq_none] at hf
    exact hf e he (by simp)
  | some x =>
    rw [hf] at hc'
    cases hc'

/-- **the hashcons stays a function**: if no shape was stored twice before a modelled insertion, none is afterwards -/
theorem add_keeps_shapes_unique {s s' : Snap} {n syn : Node} {f2o : SlotMap} {data : String} {a : AppId}
    (hok : AddOK s) (hu : (s.classes.flatMap fun c => c.nodes.map (·.1)).Nodup)
    (h : addNew s n f2o syn data = some (s', a)) :
    (s'.classes.flatMap fun c => c.nodes.map (·.1)).Nodup := by
  obtain ⟨n1, perms, hs, hmiss⟩ := addNew_stored h
  have hnot := not_stored_of_miss hmiss
  have hcl : s'.classes = s.classes ++ [SClass.mk s.uf.length (keys f2o) [Node.weakShape n1]
      (Grp.generators (addAll (Grp.mk (identity (keys f2o)) []) perms)) syn data] := by
    rw [hs]
    unfold setNew allocClass
    simp only [List.map_append, List.map_cons, List.map_nil, beq_self_eq_true, if_true]
    rw [map_id_of_ne _ _ _ (addOK_ids hok)]
  rw [hcl]
  unfold allocClass at hnot
  simp only [List.flatMap_append, List.flatMap_cons, List.flatMap_nil, List.map_nil, List.append_nil, List.map_cons] at hnot ⊢
  rw [List.nodup_append]
  refine ⟨hu, List.nodup_singleton _, ?_⟩
  intro x hx y hy
  rw [List.mem_singleton] at hy
  subst hy
  intro hxy
  subst hxy
  exact hnot hx

/-! ## the children of the classes from before stay canonical -/

theorem isAlive_lt {s : Snap} {j : Nat} (h : isAlive s j = true) : j < s.uf.length := by
  unfold isAlive at h
  rcases Nat.lt_or_ge j s.uf.length with hl | hl
  · exact hl
  · rw [List.getElem?_eq_none hl] at h; cases h

/-- a class that is alive before a modelled insertion is alive after it -/
theorem alive_survives_add {s s' : Snap} {n syn : Node} {f2o : SlotMap} {data : String} {a : AppId}
    (h : addNew s n f2o syn data = some (s', a)) {j : Nat} (hj : isAlive s j = true) : isAlive s' j = true := by
  have hlt := isAlive_lt hj
  unfold isAlive at hj ⊢
  rw [addNew_uf h, List.getElem?_append_left hlt]
  exact hj

/-- every class from before keeps canonical children: each child invocation stored in one of its shapes still points to a live class
whose slot list is the invocation's key list -/
theorem add_keeps_children_old {s s' : Snap} {n syn : Node} {f2o : SlotMap} {data : String} {a : AppId}
    (h : addNew s n f2o syn data = some (s', a)) {c : SClass} (hc : childrenOK s c = true) : childrenOK s' c = true := by
  unfold childrenOK at hc ⊢
  simp only [List.all_eq_true, Bool.and_eq_true] at hc ⊢
  intro e he b hb
  obtain ⟨⟨halive, hcls⟩, hbij⟩ := hc e he b hb
  have hlt := isAlive_lt halive
  refine ⟨⟨alive_survives_add h halive, ?_⟩, hbij⟩
  rw [cls_survives_add h (Nat.ne_of_lt hlt)]
  exact hcls

/-- the classes after a modelled insertion are the classes before, in their order, followed by one new class -/
theorem addNew_classes {s s' : Snap} {n syn : Node} {f2o : SlotMap} {data : String} {a : AppId}
    (hok : AddOK s) (h : addNew s n f2o syn data = some (s', a)) : ∃ cnew, s'.classes = s.classes ++ [cnew] := by
  obtain ⟨n1, perms, hs, _⟩ := addNew_stored h
  refine ⟨SClass.mk s.uf.length (keys f2o) [Node.weakShape n1]
      (Grp.generators (addAll (Grp.mk (identity (keys f2o)) []) perms)) syn data, ?_⟩
  rw [hs]
  unfold setNew allocClass
  simp only [List.map_append, List.map_cons, List.map_nil, beq_self_eq_true, if_true]
  rw [map_id_of_ne _ _ _ (addOK_ids hok)]

theorem leaderOK_survives_add {s s' : Snap} {n syn : Node} {f2o : SlotMap} {data : String} {a : AppId}
    (hok : AddOK s) (h : addNew s n f2o syn data = some (s', a)) {c : SClass} (hc : c ∈ s.classes)
    (hl : leaderOK s c = true) : leaderOK s' c = true := by
  have hlt : c.id < s.uf.length := hok.2 c hc
  have hentry : s'.uf[c.id]? = s.uf[c.id]? := by rw [addNew_uf h, List.getElem?_append_left hlt]
  unfold leaderOK isAlive at hl ⊢
  rw [hentry]
  exact hl

/-- **every class from before satisfies the per-class part of `checkInv` after a modelled insertion** (and is still a class) -/
theorem add_keeps_old_class_inv {s s' : Snap} {n syn : Node} {f2o : SlotMap} {data : String} {a : AppId}
    (hok : AddOK s) (h : addNew s n f2o syn data = some (s', a)) {c : SClass} (hc : c ∈ s.classes)
    (hinv : (sortedStrict c.slots && leaderOK s c && gensOK c && c.nodes.all (nodeOK c) && childrenOK s c) = true) :
    c ∈ s'.classes ∧
    (sortedStrict c.slots && leaderOK s' c && gensOK c && c.nodes.all (nodeOK c) && childrenOK s' c) = true := by
  obtain ⟨cnew, hcl⟩ := addNew_classes hok h
  simp only [Bool.and_eq_true] at hinv ⊢
  obtain ⟨⟨⟨⟨h1, h2⟩, h3⟩, h4⟩, h5⟩ := hinv
  refine ⟨?_, ⟨⟨⟨h1, leaderOK_survives_add hok h hc h2⟩, h3⟩, h4⟩, add_keeps_children_old h h5⟩
  rw [hcl]; exact List.mem_append_left _ hc

/-- every class after a modelled insertion is a class from before or holds exactly one entry, `weakShape` of a node -/
theorem add_nodes {s s' : Snap} {n syn : Node} {f2o : SlotMap} {data : String} {a : AppId}
    (hok : AddOK s) (h : addNew s n f2o syn data = some (s', a)) {c : SClass} (hc : c ∈ s'.classes) :
    c ∈ s.classes ∨ ∃ n1, c.nodes = [Node.weakShape n1] ∧ c.slots = keys f2o := by
  obtain ⟨n1, perms, hs, _⟩ := addNew_stored h
  obtain ⟨cnew, hcl⟩ := addNew_classes hok h
  rw [hs] at hc
  unfold setNew allocClass at hc
  simp only [List.mem_map, List.mem_append, List.mem_singleton] at hc
  obtain ⟨d, hd, rfl⟩ := hc
  rcases hd with hd | hd
  · left
    have hne : (d.id == s.uf.length) = false := by
      have := hok.2 d hd
      simp only [beq_eq_false_iff_ne, ne_eq]; omega
    simp only [hne]
    exact hd
  · right
    subst hd
    exact ⟨n1, by simp⟩

/-- the Boolean test `shapesUnique` evaluates is `List.Nodup` -/
theorem nodupb_iff : ∀ (l : List Node), shapesUnique.nodup l = true ↔ l.Nodup
  | [] => by simp [shapesUnique.nodup]
  | a :: t => by
    simp only [shapesUnique.nodup, Bool.and_eq_true, Bool.not_eq_true', decide_eq_false_iff_not, List.nodup_cons, nodupb_iff t]

/-- `shapesUnique`, as the checker evaluates it, survives a modelled insertion -/
theorem add_keeps_shapesUnique {s s' : Snap} {n syn : Node} {f2o : SlotMap} {data : String} {a : AppId}
    (hok : AddOK s) (hu : shapesUnique s = true) (h : addNew s n f2o syn data = some (s', a)) : shapesUnique s' = true := by
  unfold shapesUnique at hu ⊢
  simp only at hu ⊢
  rw [nodupb_iff] at hu ⊢
  exact add_keeps_shapes_unique hok hu h

/-! ## every sequence of modelled insertions -/

theorem inserts_keep_old_class_inv {s s'' : Snap} (hok : AddOK s) (hi : Inserts s s'') {c : SClass} (hc : c ∈ s.classes)
    (hinv : (sortedStrict c.slots && leaderOK s c && gensOK c && c.nodes.all (nodeOK c) && childrenOK s c) = true) :
    c ∈ s''.classes ∧
    (sortedStrict c.slots && leaderOK s'' c && gensOK c && c.nodes.all (nodeOK c) && childrenOK s'' c) = true := by
  induction hi with
  | refl s => exact ⟨hc, hinv⟩
  | step h _ ih =>
    obtain ⟨hc', hinv'⟩ := add_keeps_old_class_inv hok h hc hinv
    exact ih (addOK_add hok h) hc' hinv'

theorem inserts_keep_shapes_unique {s s'' : Snap} (hok : AddOK s) (hi : Inserts s s'')
    (hu : (s.classes.flatMap fun c => c.nodes.map (·.1)).Nodup) :
    (s''.classes.flatMap fun c => c.nodes.map (·.1)).Nodup := by
  induction hi with
  | refl s => exact hu
  | step h _ ih => exact ih (addOK_add hok h) (add_keeps_shapes_unique hok hu h)

theorem inserts_keep_leaders_groups {s s'' : Snap} (hok : AddOK s) (hi : Inserts s s'')
    (hl : ∀ c ∈ s.classes, leaderOK s c = true) (hg : ∀ c ∈ s.classes, Grp.Valid c.slots c.gens) :
    (∀ c ∈ s''.classes, leaderOK s'' c = true) ∧ ∀ c ∈ s''.classes, Grp.Valid c.slots c.gens := by
  induction hi with
  | refl s => exact ⟨hl, hg⟩
  | step h _ ih => exact ih (addOK_add hok h) (add_keeps_leaderOK hok hl h) (add_keeps_groups_valid hok hg h)

end Snap
end SV
