import SlotVerif.Model.Node
import SlotVerif.Proofs.SlotMap
/-! `weak_shape` is idempotent: the shape of a shape is the shape itself (C16). -/
namespace SV.ShapeIdem
open SV SV.SlotMap SV.Field

/-- every value handed out so far is below the counter -/
def ValsLt (st : WS) : Prop := ∀ t w, SlotMap.get st.1 t = some w → w < 4 * st.2

/-- the state after processing a field extends the state before by fresh-valued entries on new keys -/
structure Frame (st st2 : WS) : Prop where
  cnt : st.2 ≤ st2.2
  wf : WF st2.1
  keep : ∀ t w, SlotMap.get st.1 t = some w → SlotMap.get st2.1 t = some w
  new : ∀ t, SlotMap.get st.1 t = none → SlotMap.get st2.1 t = none ∨
    ∃ w, SlotMap.get st2.1 t = some w ∧ 4 * st.2 ≤ w ∧ w < 4 * st2.2

theorem Frame.refl {st : WS} (h : WF st.1) : Frame st st :=
  ⟨Nat.le_refl _, h, fun _ _ h => h, fun _ h => Or.inl h⟩

theorem Frame.trans {a b c : WS} (h1 : Frame a b) (h2 : Frame b c) : Frame a c where
  cnt := Nat.le_trans h1.cnt h2.cnt
  wf := h2.wf
  keep := fun t w h => h2.keep t w (h1.keep t w h)
  new := fun t h => by
    rcases h1.new t h with h' | ⟨w, hw, hl, hu⟩
    · rcases h2.new t h' with h'' | ⟨w, hw, hl, hu⟩
      · exact Or.inl h''
      · exact Or.inr ⟨w, hw, by have := h1.cnt; omega, hu⟩
    · exact Or.inr ⟨w, h2.keep t w hw, hl, by have := h2.cnt; omega⟩

theorem frame_addSlot {st : WS} (h : WF st.1) {s : Nat} (hs : SlotMap.get st.1 s = none) : Frame st (addSlot s st).2 where
  cnt := by simp [addSlot]
  wf := wf_insert h _ _
  keep := fun t w ht => by
    simp only [addSlot]
    rw [get_insert h]
    by_cases hts : t = s
    · subst hts; rw [hs] at ht; simp at ht
    · simp [hts, ht]
  new := fun t ht => by
    simp only [addSlot]
    rw [get_insert h]
    by_cases hts : t = s
    · right; exact ⟨4 * st.2, by simp [hts], Nat.le_refl _, by omega⟩
    · left; simp [hts, ht]

theorem frame_onSeeSlot {st : WS} (h : WF st.1) (s : Nat) : Frame st (onSeeSlot s st).2 := by
  unfold onSeeSlot
  cases hg : SlotMap.get st.1 s with
  | some w => exact Frame.refl h
  | none => exact frame_addSlot h hg

theorem frame_wsValues : ∀ (l : List (Nat × Nat)) {st : WS}, WF st.1 → Frame st (wsValues l st).2
  | [], st, h => Frame.refl h
  | (k, v) :: t, st, h => by
    simp only [wsValues]
    have h1 := frame_onSeeSlot h v
    exact h1.trans (frame_wsValues t h1.wf)

theorem frame_weakShape : ∀ (f : Field) {st : WS}, WF st.1 → Frame st (Field.weakShape f st).2
  | .slot s, st, h => by simp only [Field.weakShape]; exact frame_onSeeSlot h s
  | .app a, st, h => by simp only [Field.weakShape]; exact frame_wsValues a.m h
  | .lit _, st, h => Frame.refl h
  | .bind s f, st, h => by
    simp only [Field.weakShape]
    have hw1 : WF (addSlot s st).2.1 := wf_insert h _ _
    have hb := frame_weakShape f hw1
    generalize hst2 : Field.weakShape f (addSlot s st).2 = r at hb
    have hcnt : st.2 ≤ r.2.2 := by have := hb.cnt; simp [addSlot] at this; omega
    cases hsh : SlotMap.get st.1 s with
    | some old =>
      simp only
      refine ⟨hcnt, wf_insert hb.wf _ _, ?_, ?_⟩
      · intro t w ht
        rw [get_insert hb.wf]
        by_cases hts : t = s
        · subst hts; rw [hsh] at ht; simp [ht]
        · simp only [hts, if_false]
          apply hb.keep
          simp only [addSlot]; rw [get_insert h]; simp [hts, ht]
      · intro t ht
        rw [get_insert hb.wf]
        have hts : t ≠ s := by intro he; subst he; rw [hsh] at ht; simp at ht
        simp only [hts, if_false]
        have : SlotMap.get (addSlot s st).2.1 t = none := by
          simp only [addSlot]; rw [get_insert h]; simp [hts, ht]
        rcases hb.new t this with h' | ⟨w, hw, hl, hu⟩
        · exact Or.inl h'
        · right; refine ⟨w, hw, ?_, hu⟩
          simp [addSlot] at hl; omega
    | none =>
      simp only
      refine ⟨hcnt, wf_remove hb.wf _, ?_, ?_⟩
      · intro t w ht
        rw [get_remove hb.wf]
        have hts : t ≠ s := by intro he; subst he; rw [hsh] at ht; simp at ht
        simp only [hts, if_false]
        apply hb.keep
        simp only [addSlot]; rw [get_insert h]; simp [hts, ht]
      · intro t ht
        rw [get_remove hb.wf]
        by_cases hts : t = s
        · left; simp [hts]
        · simp only [hts, if_false]
          have : SlotMap.get (addSlot s st).2.1 t = none := by
            simp only [addSlot]; rw [get_insert h]; simp [hts, ht]
          rcases hb.new t this with h' | ⟨w, hw, hl, hu⟩
          · exact Or.inl h'
          · right; refine ⟨w, hw, ?_, hu⟩
            simp [addSlot] at hl; omega

theorem valsLt_of_frame {st st2 : WS} (hv : ValsLt st) (hf : Frame st st2) : ValsLt st2 := by
  intro t w ht
  cases hg : SlotMap.get st.1 t with
  | some w' =>
    have := hf.keep t w' hg
    rw [this] at ht
    have hw : w' = w := by simpa using ht
    have := hv t w' hg
    have := hf.cnt
    omega
  | none =>
    rcases hf.new t hg with h' | ⟨w', hw', _, hu⟩
    · rw [h'] at ht; simp at ht
    · rw [hw'] at ht
      have : w' = w := by simpa using ht
      omega


/-! ### the simulation: original run vs. run on its own output -/

structure Inv (st st' : WS) : Prop where
  cnt : st'.2 = st.2
  wf : WF st.1
  wf' : WF st'.1
  img : ∀ s w, SlotMap.get st.1 s = some w → SlotMap.get st'.1 w = some w
  fix : ∀ x y, SlotMap.get st'.1 x = some y → y = x ∧ x < 4 * st.2
  vals : ValsLt st

/-- what one step establishes: same output, invariant kept, old entries of the second state untouched -/
structure Step (st st' : WS) (out out' : Field) (r r' : WS) : Prop where
  same : out' = out
  inv : Inv r r'
  frame : ∀ x, x < 4 * st.2 → SlotMap.get r'.1 x = SlotMap.get st'.1 x

theorem get_none_of_fix {st st' : WS} (h : Inv st st') : SlotMap.get st'.1 (4 * st.2) = none := by
  cases hg : SlotMap.get st'.1 (4 * st.2) with
  | none => rfl
  | some y => have := (h.fix _ _ hg).2; omega

theorem inv_add {st st' : WS} (h : Inv st st') (s : Nat) :
    Inv (SlotMap.insert st.1 s (4 * st.2), st.2 + 1) (SlotMap.insert st'.1 (4 * st.2) (4 * st.2), st.2 + 1) where
  cnt := rfl
  wf := wf_insert h.wf _ _
  wf' := wf_insert h.wf' _ _
  img := fun t w ht => by
    simp only at ht ⊢
    rw [get_insert h.wf] at ht
    rw [get_insert h.wf']
    by_cases hts : t = s
    · simp only [hts, if_true] at ht
      have : w = 4 * st.2 := by simpa using ht.symm
      simp [this]
    · simp only [hts, if_false] at ht
      have hw := h.vals t w ht
      have : w ≠ 4 * st.2 := by omega
      simp [this, h.img t w ht]
  fix := fun x y hx => by
    simp only at hx ⊢
    rw [get_insert h.wf'] at hx
    by_cases hxv : x = 4 * st.2
    · simp only [hxv, if_true] at hx
      have : y = 4 * st.2 := by simpa using hx.symm
      exact ⟨by rw [this, hxv], by omega⟩
    · simp only [hxv, if_false] at hx
      have := h.fix x y hx
      exact ⟨this.1, by omega⟩
  vals := fun t w ht => by
    simp only at ht ⊢
    rw [get_insert h.wf] at ht
    by_cases hts : t = s
    · simp only [hts, if_true] at ht
      have : w = 4 * st.2 := by simpa using ht.symm
      omega
    · simp only [hts, if_false] at ht
      have := h.vals t w ht
      omega

theorem step_see {st st' : WS} (h : Inv st st') (s : Nat) :
    (onSeeSlot (onSeeSlot s st).1 st').1 = (onSeeSlot s st).1 ∧ Inv (onSeeSlot s st).2 (onSeeSlot (onSeeSlot s st).1 st').2 ∧
    ∀ x, x < 4 * st.2 → SlotMap.get (onSeeSlot (onSeeSlot s st).1 st').2.1 x = SlotMap.get st'.1 x := by
  unfold onSeeSlot
  cases hg : SlotMap.get st.1 s with
  | some w =>
    simp only
    rw [h.img s w hg]
    exact ⟨rfl, h, fun _ _ => rfl⟩
  | none =>
    simp only [addSlot]
    rw [get_none_of_fix h]
    simp only [addSlot, h.cnt]
    refine ⟨trivial, inv_add h s, ?_⟩
    intro x hx
    rw [get_insert h.wf']
    have : x ≠ 4 * st.2 := by omega
    simp [this]

theorem step_values : ∀ (l : List (Nat × Nat)) {st st' : WS}, Inv st st' →
    (wsValues (wsValues l st).1 st').1 = (wsValues l st).1 ∧ Inv (wsValues l st).2 (wsValues (wsValues l st).1 st').2 ∧
    ∀ x, x < 4 * st.2 → SlotMap.get (wsValues (wsValues l st).1 st').2.1 x = SlotMap.get st'.1 x
  | [], st, st', h => ⟨rfl, h, fun _ _ => rfl⟩
  | (k, v) :: t, st, st', h => by
    simp only [wsValues]
    obtain ⟨a1, a2, a3⟩ := step_see h v
    obtain ⟨b1, b2, b3⟩ := step_values t a2
    have hcnt : st.2 ≤ (onSeeSlot v st).2.2 := (frame_onSeeSlot h.wf v).cnt
    rw [a1, b1]
    refine ⟨rfl, b2, ?_⟩
    intro x hx
    rw [b3 x (by omega), a3 x hx]

theorem step_weakShape : ∀ (f : Field) {st st' : WS}, Inv st st' →
    (Field.weakShape (Field.weakShape f st).1 st').1 = (Field.weakShape f st).1 ∧
    Inv (Field.weakShape f st).2 (Field.weakShape (Field.weakShape f st).1 st').2 ∧
    ∀ x, x < 4 * st.2 → SlotMap.get (Field.weakShape (Field.weakShape f st).1 st').2.1 x = SlotMap.get st'.1 x
  | .slot s, st, st', h => by
    simp only [Field.weakShape]
    obtain ⟨a1, a2, a3⟩ := step_see h s
    rw [a1]; exact ⟨rfl, a2, a3⟩
  | .app a, st, st', h => by
    simp only [Field.weakShape]
    obtain ⟨a1, a2, a3⟩ := step_values a.m h
    rw [a1]; exact ⟨rfl, a2, a3⟩
  | .lit _, st, st', h => ⟨rfl, h, fun _ _ => rfl⟩
  | .bind s f, st, st', h => by
    simp only [Field.weakShape, addSlot]
    rw [get_none_of_fix h]
    simp only [h.cnt]
    have h1 := inv_add h s
    obtain ⟨b1, b2, b3⟩ := step_weakShape f h1
    have hfr := frame_weakShape f (st := (SlotMap.insert st.1 s (4 * st.2), st.2 + 1)) (wf_insert h.wf _ _)
    generalize Field.weakShape f (SlotMap.insert st.1 s (4 * st.2), st.2 + 1) = r at b1 b2 b3 hfr
    rw [b1]
    generalize Field.weakShape r.1 (SlotMap.insert st'.1 (4 * st.2) (4 * st.2), st.2 + 1) = r' at b2 b3
    have hk : st.2 + 1 ≤ r.2.2 := hfr.cnt
    refine ⟨rfl, ?_, ?_⟩
    · -- the invariant after restoring the binder's name on both sides
      have himg_other : ∀ t w, t ≠ s → SlotMap.get r.2.1 t = some w → SlotMap.get (SlotMap.remove r'.2.1 (4 * st.2)) w = some w := by
        intro t w hts ht
        have hwv : w ≠ 4 * st.2 := by
          cases hg : SlotMap.get st.1 t with
          | some w0 =>
            have : SlotMap.get (SlotMap.insert st.1 s (4 * st.2)) t = some w0 := by rw [get_insert h.wf]; simp [hts, hg]
            have := hfr.keep t w0 this
            rw [this] at ht
            have hw : w0 = w := by simpa using ht
            have := h.vals t w0 hg
            omega
          | none =>
            have : SlotMap.get (SlotMap.insert st.1 s (4 * st.2)) t = none := by rw [get_insert h.wf]; simp [hts, hg]
            rcases hfr.new t this with h' | ⟨w', hw', hl, _⟩
            · rw [h'] at ht; simp at ht
            · rw [hw'] at ht
              have : w' = w := by simpa using ht
              simp only at hl
              omega
        rw [get_remove b2.wf']
        simp [hwv, b2.img t w ht]
      cases hsh : SlotMap.get st.1 s with
      | some old =>
        simp only
        refine ⟨b2.cnt, wf_insert b2.wf _ _, wf_remove b2.wf' _, ?_, ?_, ?_⟩
        · intro t w ht
          rw [get_insert b2.wf] at ht
          by_cases hts : t = s
          · simp only [hts, if_true] at ht
            have hw : w = old := by simpa using ht.symm
            have hold := h.vals s old hsh
            have hne : old ≠ 4 * st.2 := by omega
            rw [hw, get_remove b2.wf']
            simp only [hne, if_false]
            rw [b3 old (by simp only; omega), get_insert h.wf']
            simp [hne, h.img s old hsh]
          · simp only [hts, if_false] at ht
            exact himg_other t w hts ht
        · intro x y hx
          rw [get_remove b2.wf'] at hx
          by_cases hxv : x = 4 * st.2
          · simp [hxv] at hx
          · simp only [hxv, if_false] at hx
            exact b2.fix x y hx
        · intro t w ht
          simp only at ht ⊢
          rw [get_insert b2.wf] at ht
          by_cases hts : t = s
          · simp only [hts, if_true] at ht
            have hw : w = old := by simpa using ht.symm
            have := h.vals s old hsh
            omega
          · simp only [hts, if_false] at ht
            exact b2.vals t w ht
      | none =>
        simp only
        refine ⟨b2.cnt, wf_remove b2.wf _, wf_remove b2.wf' _, ?_, ?_, ?_⟩
        · intro t w ht
          rw [get_remove b2.wf] at ht
          by_cases hts : t = s
          · simp [hts] at ht
          · simp only [hts, if_false] at ht
            exact himg_other t w hts ht
        · intro x y hx
          rw [get_remove b2.wf'] at hx
          by_cases hxv : x = 4 * st.2
          · simp [hxv] at hx
          · simp only [hxv, if_false] at hx
            exact b2.fix x y hx
        · intro t w ht
          simp only at ht ⊢
          rw [get_remove b2.wf] at ht
          by_cases hts : t = s
          · simp [hts] at ht
          · simp only [hts, if_false] at ht
            exact b2.vals t w ht
    · intro x hx
      rw [get_remove b2.wf']
      have hxv : x ≠ 4 * st.2 := by omega
      simp only [hxv, if_false]
      rw [b3 x (by simp only; omega), get_insert h.wf']
      simp [hxv]

theorem step_fields : ∀ (fs : List Field) {st st' : WS}, Inv st st' →
    (Node.weakShapeFields (Node.weakShapeFields fs st).1 st').1 = (Node.weakShapeFields fs st).1 ∧
    Inv (Node.weakShapeFields fs st).2 (Node.weakShapeFields (Node.weakShapeFields fs st).1 st').2
  | [], st, st', h => ⟨rfl, h⟩
  | f :: t, st, st', h => by
    simp only [Node.weakShapeFields]
    obtain ⟨a1, a2, _⟩ := step_weakShape f h
    obtain ⟨b1, b2⟩ := step_fields t a2
    rw [a1, b1]
    exact ⟨rfl, b2⟩

end SV.ShapeIdem
