import SlotVerif.Model.UfWrite
import SlotVerif.Proofs.UnionFind
/-!
# Writes to the slotted union-find keep every old handle valid

For every table that satisfies the table invariants (`UfWF'`, `LeaderId'`) and every write that passes `validWrite`
(the three shapes of `unionfind_set` call the e-graph makes: alloc, merge, shrink):

* `write_inv`      — the invariants hold afterwards;
* `write_redirect` — every id that resolved to `r` resolves afterwards, to the same leader — or, if `r`'s leader is
  the class merged away by this write, to the leader it was merged into — with the map `X ∘ r.m` for the `X` the write
  prescribes; in particular the set of arguments the resolution retains only shrinks;
* `writes_monotone` — the same for every *sequence* of valid writes (induction over the sequence): handles stay
  resolvable, ids with one leader keep one leader, retained arguments only shrink.
-/
namespace SV
namespace Snap
open SlotMap

theorem ufGetL_wf {uf : List AppId} (hw : UfWF' uf) {f j : Nat} {r : AppId} (h : ufGetL uf f j = some r) : WF r.m := by
  obtain ⟨e, he1, _, he3⟩ := ufGetL_form hw f j r h
  rcases he3 with h1 | ⟨X, _, h1⟩
  · rw [h1]; exact hw e (List.mem_of_getElem? he1)
  · rw [h1]; exact wf_composePartial _ _

theorem isPartialId_iff {m : SlotMap} : isPartialId m = true ↔ ∀ p ∈ m, p.1 = p.2 := by
  unfold isPartialId; simp [List.all_eq_true]

theorem mem_of_subset {a b : List Nat} (h : subset a b = true) {x : Nat} (hx : x ∈ a) : x ∈ b := by
  unfold subset at h
  simp only [List.all_eq_true] at h
  simpa using h x hx

/-- composing with a partial identity that covers the values changes nothing -/
theorem compose_partialId_right {a o : SlotMap} (ha : WF a) (ho : WF o) (hid : ∀ p ∈ o, p.1 = p.2)
    (hsub : ∀ v ∈ valuesVec a, v ∈ keys o) : composePartial a o = a := by
  apply ext (wf_composePartial _ _) ha
  intro k
  rw [get_composePartial ha]
  cases hg : get a k with
  | none => rfl
  | some v =>
    have hm : (k, v) ∈ a := (get_eq_some_iff ha k v).mp hg
    have hv : v ∈ valuesVec a := List.mem_map.mpr ⟨(k, v), hm, rfl⟩
    have hk := hsub v hv
    obtain ⟨p, hp, hpk⟩ := List.mem_map.mp hk
    have := hid p hp
    have hp' : (v, v) ∈ o := by
      have : p = (v, v) := by cases p; simp_all
      rw [← this]; exact hp
    simpa using (get_eq_some_iff ho v v).mpr hp'

/-- composing a partial identity with one that covers its keys changes nothing -/
theorem compose_partialId_partialId {a o : SlotMap} (ha : WF a) (ho : WF o) (hida : ∀ p ∈ a, p.1 = p.2)
    (hid : ∀ p ∈ o, p.1 = p.2) (hsub : ∀ v ∈ keys a, v ∈ keys o) : composePartial a o = a := by
  apply compose_partialId_right ha ho hid
  intro v hv
  obtain ⟨p, hp, rfl⟩ := List.mem_map.mp hv
  apply hsub
  have := hida p hp
  exact List.mem_map.mpr ⟨p, hp, this⟩

/-- the values of a composition are values of its second factor -/
theorem values_composePartial {a b : SlotMap} (ha : WF a) (hb : WF b) {v : Nat}
    (h : v ∈ valuesVec (composePartial a b)) : v ∈ valuesVec b := by
  obtain ⟨p, hp, rfl⟩ := List.mem_map.mp h
  have hg : get (composePartial a b) p.1 = some p.2 := (get_eq_some_iff (wf_composePartial _ _) _ _).mpr hp
  rw [get_composePartial ha] at hg
  cases hga : get a p.1 with
  | none => rw [hga] at hg; simp at hg
  | some y =>
    rw [hga] at hg
    simp only [Option.bind_some] at hg
    exact List.mem_map.mpr ⟨(y, p.2), (get_eq_some_iff hb _ _).mp hg, rfl⟩

/-! ### lookups that do not end in the overwritten leader are unchanged -/

theorem set_unchanged {uf : List AppId} {i : Nat} {old e : AppId} (hold : uf[i]? = some old) (hlead : old.id = i) :
    ∀ (f j : Nat) (r : AppId), ufGetL uf f j = some r → r.id ≠ i → ufGetL (uf.set i e) f j = some r
  | 0, _, _, h, _ => by simp [ufGetL] at h
  | f + 1, j, r, h, hne => by
    rw [ufGetL] at h ⊢
    cases hej : uf[j]? with
    | none => rw [hej] at h; simp at h
    | some entry =>
      rw [hej] at h; simp only at h
      have hji : j ≠ i := by
        intro hc; subst hc
        rw [hold] at hej
        have : old = entry := Option.some.inj hej
        subst this
        simp only [hlead, if_true] at h
        have : old = r := Option.some.inj h
        subst this; exact hne hlead
      rw [List.getElem?_set_ne (Ne.symm hji), hej]; simp only
      by_cases hid : entry.id = j
      · simpa [hid] using h
      · simp only [hid, if_false] at h ⊢
        cases hl : ufGetL uf f entry.id with
        | none => rw [hl] at h; simp at h
        | some l =>
          rw [hl] at h
          have hr : r = { id := l.id, m := composePartial l.m entry.m } := (Option.some.inj h).symm
          have hne' : l.id ≠ i := by rw [hr] at hne; exact hne
          rw [set_unchanged hold hlead f entry.id l hl hne']; exact h

/-! ### merge: lookups that ended in the absorbed leader now end in the target -/

theorem merge_redirect {uf : List AppId} (hw : UfWF' uf) {i : Nat} {old e tgt : AppId}
    (hold : uf[i]? = some old) (hlead : old.id = i) (hne : e.id ≠ i) (htgt : uf[e.id]? = some tgt) (htl : tgt.id = e.id)
    (hwe : WF e.m) (habs : composePartial e.m old.m = e.m) :
    ∀ (f j : Nat) (r : AppId), ufGetL uf f j = some r → r.id = i →
      ufGetL (uf.set i e) (f + 1) j = some { id := e.id, m := composePartial (composePartial tgt.m e.m) r.m }
  | 0, _, _, h, _ => by simp [ufGetL] at h
  | f + 1, j, r, h, hri => by
    have hwt : WF tgt.m := hw tgt (List.mem_of_getElem? htgt)
    have hlt : i < uf.length := (List.getElem?_eq_some_iff.mp hold).1
    rw [ufGetL] at h
    cases hej : uf[j]? with
    | none => rw [hej] at h; simp at h
    | some entry =>
      rw [hej] at h; simp only at h
      by_cases hji : j = i
      · -- the absorbed leader itself
        subst hji
        rw [hold] at hej
        have : old = entry := Option.some.inj hej
        subst this
        simp only [hlead, if_true] at h
        have : old = r := Option.some.inj h
        subst this
        have htarget : ufGetL (uf.set j e) (f + 1) e.id = some tgt := by
          rw [ufGetL, List.getElem?_set_ne (Ne.symm hne), htgt]; simp [htl]
        rw [ufGetL, List.getElem?_set_self hlt]; simp only [hne, if_false]
        rw [htarget]; simp only
        rw [compose_assoc hwt hwe, habs, htl]
      · by_cases hid : entry.id = j
        · simp only [hid, if_true] at h
          have : entry = r := Option.some.inj h
          subst this; exact absurd (hid.symm.trans hri) hji
        · simp only [hid, if_false] at h
          cases hl : ufGetL uf f entry.id with
          | none => rw [hl] at h; simp at h
          | some l =>
            rw [hl] at h
            have hr : r = { id := l.id, m := composePartial l.m entry.m } := (Option.some.inj h).symm
            have hli : l.id = i := by rw [hr] at hri; exact hri
            have ih := merge_redirect hw hold hlead hne htgt htl hwe habs f entry.id l hl hli
            rw [ufGetL, List.getElem?_set_ne (Ne.symm hji), hej]; simp only [hid, if_false]
            rw [ih]; simp only
            rw [hr]; simp only
            rw [compose_assoc (wf_composePartial _ _) (ufGetL_wf hw hl)]

/-! ### shrink: lookups that ended in the shrunk leader are restricted -/

theorem shrink_redirect {uf : List AppId} (hw : UfWF' uf) {i : Nat} {old e : AppId}
    (hold : uf[i]? = some old) (hlead : old.id = i) (hei : e.id = i) (hwe : WF e.m)
    (habs : composePartial e.m old.m = e.m) :
    ∀ (f j : Nat) (r : AppId), ufGetL uf f j = some r → r.id = i →
      ufGetL (uf.set i e) f j = some { id := i, m := composePartial e.m r.m }
  | 0, _, _, h, _ => by simp [ufGetL] at h
  | f + 1, j, r, h, hri => by
    have hlt : i < uf.length := (List.getElem?_eq_some_iff.mp hold).1
    rw [ufGetL] at h
    cases hej : uf[j]? with
    | none => rw [hej] at h; simp at h
    | some entry =>
      rw [hej] at h; simp only at h
      by_cases hji : j = i
      · subst hji
        rw [hold] at hej
        have : old = entry := Option.some.inj hej
        subst this
        simp only [hlead, if_true] at h
        have : old = r := Option.some.inj h
        subst this
        rw [ufGetL, List.getElem?_set_self hlt]; simp only [hei, if_true]
        rw [habs]; cases e; simp_all
      · by_cases hid : entry.id = j
        · simp only [hid, if_true] at h
          have : entry = r := Option.some.inj h
          subst this; exact absurd (hid.symm.trans hri) hji
        · simp only [hid, if_false] at h
          cases hl : ufGetL uf f entry.id with
          | none => rw [hl] at h; simp at h
          | some l =>
            rw [hl] at h
            have hr : r = { id := l.id, m := composePartial l.m entry.m } := (Option.some.inj h).symm
            have hli : l.id = i := by rw [hr] at hri; exact hri
            have ih := shrink_redirect hw hold hlead hei hwe habs f entry.id l hl hli
            rw [ufGetL, List.getElem?_set_ne (Ne.symm hji), hej]; simp only [hid, if_false]
            rw [ih]; simp only
            rw [hr]; simp only
            rw [compose_assoc hwe (ufGetL_wf hw hl)]

/-! ### alloc: nothing old changes -/

theorem append_unchanged {uf : List AppId} (e : AppId) :
    ∀ (f j : Nat) (r : AppId), ufGetL uf f j = some r → ufGetL (uf ++ [e]) f j = some r
  | 0, _, _, h => by simp [ufGetL] at h
  | f + 1, j, r, h => by
    rw [ufGetL] at h ⊢
    cases hej : uf[j]? with
    | none => rw [hej] at h; simp at h
    | some entry =>
      have hlt : j < uf.length := (List.getElem?_eq_some_iff.mp hej).1
      rw [hej] at h; simp only at h
      rw [List.getElem?_append_left hlt, hej]; simp only
      by_cases hid : entry.id = j
      · simpa [hid] using h
      · simp only [hid, if_false] at h ⊢
        cases hl : ufGetL uf f entry.id with
        | none => rw [hl] at h; simp at h
        | some l => rw [hl] at h; rw [append_unchanged e f entry.id l hl]; exact h

/-! ### one valid write -/

/-- what a valid write is, in `Prop` form -/
inductive WriteCase (uf : List AppId) (i : Nat) (e : AppId) : Prop
  | alloc (hlen : uf.length = i) (hid : e.id = i) (hpid : ∀ p ∈ e.m, p.1 = p.2)
  | shrink (old : AppId) (hlen : uf.length ≠ i) (hold : uf[i]? = some old) (hlead : old.id = i) (hid : e.id = i)
      (hpid : ∀ p ∈ e.m, p.1 = p.2) (hsub : ∀ v ∈ keys e.m, v ∈ keys old.m)
  | merge (old tgt : AppId) (hlen : uf.length ≠ i) (hold : uf[i]? = some old) (hlead : old.id = i) (hid : e.id ≠ i)
      (htgt : uf[e.id]? = some tgt) (htl : tgt.id = e.id) (hsub : ∀ v ∈ valuesVec e.m, v ∈ keys old.m)

theorem validWrite_cases {uf : List AppId} {i : Nat} {e : AppId} (h : validWrite uf i e = true) :
    WF e.m ∧ WriteCase uf i e := by
  unfold validWrite at h
  simp only [Bool.and_eq_true] at h
  refine ⟨wf_of_wfb _ h.1, ?_⟩
  have h2 := h.2
  by_cases hlen : uf.length = i
  · simp only [hlen, if_true, Bool.and_eq_true, beq_iff_eq] at h2
    exact .alloc hlen h2.1 (isPartialId_iff.mp h2.2)
  · simp only [hlen, if_false] at h2
    cases hold : uf[i]? with
    | none => rw [hold] at h2; simp at h2
    | some old =>
      rw [hold] at h2
      simp only [Bool.and_eq_true, beq_iff_eq] at h2
      obtain ⟨hlead, h3⟩ := h2
      by_cases hid : e.id = i
      · simp only [hid, if_true, Bool.and_eq_true] at h3
        exact .shrink old hlen hold hlead hid (isPartialId_iff.mp h3.1) (fun v hv => mem_of_subset h3.2 hv)
      · simp only [hid, if_false] at h3
        cases htgt : uf[e.id]? with
        | none => rw [htgt] at h3; simp at h3
        | some tgt =>
          rw [htgt] at h3
          simp only [Bool.and_eq_true, beq_iff_eq] at h3
          exact .merge old tgt hlen hold hlead hid htgt h3.1.1.1.1 (fun v hv => mem_of_subset h3.1.1.1.2 hv)

/-- **the table invariants survive every valid write** -/
theorem write_inv {uf : List AppId} (hw : UfWF' uf) (hl : LeaderId' uf) {i : Nat} {e : AppId}
    (hv : validWrite uf i e = true) : UfWF' (ufSet uf i e) ∧ LeaderId' (ufSet uf i e) := by
  obtain ⟨hwe, hc⟩ := validWrite_cases hv
  unfold ufSet
  cases hc with
  | alloc hlen hid hpid =>
    simp only [hlen, if_true]
    constructor
    · intro x hx
      rcases List.mem_append.mp hx with h | h
      · exact hw x h
      · simp at h; subst h; exact hwe
    · intro j x hj hxid p hp
      by_cases hjl : j < uf.length
      · rw [List.getElem?_append_left hjl] at hj; exact hl j x hj hxid p hp
      · have hjlen : j = uf.length := by
          have := (List.getElem?_eq_some_iff.mp hj).1
          simp at this; omega
        subst hjlen
        simp at hj; subst hj; exact hpid p hp
  | shrink old hlen hold hlead hid hpid hsub =>
    simp only [hlen, if_false]
    refine ⟨wf_set hw i hwe, ?_⟩
    intro j x hj hxid p hp
    by_cases hji : j = i
    · subst hji
      have hlt : j < uf.length := (List.getElem?_eq_some_iff.mp hold).1
      rw [List.getElem?_set_self hlt] at hj
      have : e = x := Option.some.inj hj
      subst this; exact hpid p hp
    · rw [List.getElem?_set_ne (Ne.symm hji)] at hj; exact hl j x hj hxid p hp
  | merge old tgt hlen hold hlead hid htgt htl hsub =>
    simp only [hlen, if_false]
    refine ⟨wf_set hw i hwe, ?_⟩
    intro j x hj hxid p hp
    by_cases hji : j = i
    · subst hji
      have hlt : j < uf.length := (List.getElem?_eq_some_iff.mp hold).1
      rw [List.getElem?_set_self hlt] at hj
      have : e = x := Option.some.inj hj
      subst this; exact absurd hxid hid
    · rw [List.getElem?_set_ne (Ne.symm hji)] at hj; exact hl j x hj hxid p hp

/-- **every old handle stays valid across a valid write**: an id that resolved to `r` resolves afterwards — to the same
leader, or to the target of the merge if `r`'s leader is the class merged away — and every argument the new resolution
retains was retained by the old one -/
theorem write_redirect {uf : List AppId} (hw : UfWF' uf) (hl : LeaderId' uf) {i : Nat} {e : AppId}
    (hv : validWrite uf i e = true) {f j : Nat} {r : AppId} (h : ufGetL uf f j = some r) :
    ∃ r', ufGetL (ufSet uf i e) (f + 1) j = some r' ∧
      (r'.id = if r.id = i then e.id else r.id) ∧
      (r.id ≠ i → r' = r) ∧
      (∀ v ∈ valuesVec r'.m, v ∈ valuesVec r.m) := by
  obtain ⟨hwe, hc⟩ := validWrite_cases hv
  have hwr : WF r.m := ufGetL_wf hw h
  unfold ufSet
  cases hc with
  | alloc hlen hid hpid =>
    simp only [hlen, if_true]
    have hne : r.id ≠ i := by
      obtain ⟨x, hx, _, _⟩ := ufGetL_form hw f j r h
      have := (List.getElem?_eq_some_iff.mp hx).1
      omega
    exact ⟨r, ufGetL_succ _ _ _ (append_unchanged e f j r h), by simp [hne], fun _ => rfl, fun v hv => hv⟩
  | shrink old hlen hold hlead hid hpid hsub =>
    simp only [hlen, if_false]
    by_cases hri : r.id = i
    · have habs : composePartial e.m old.m = e.m :=
        compose_partialId_partialId hwe (hw old (List.mem_of_getElem? hold)) hpid (hl i old hold hlead) hsub
      refine ⟨_, ufGetL_succ _ _ _ (shrink_redirect hw hold hlead hid hwe habs f j r h hri), by simp [hri, hid],
        fun hne => absurd hri hne, ?_⟩
      intro v hv; exact values_composePartial hwe hwr hv
    · exact ⟨r, ufGetL_succ _ _ _ (set_unchanged hold hlead f j r h hri), by simp [hri], fun _ => rfl, fun v hv => hv⟩
  | merge old tgt hlen hold hlead hid htgt htl hsub =>
    simp only [hlen, if_false]
    by_cases hri : r.id = i
    · have habs : composePartial e.m old.m = e.m :=
        compose_partialId_right hwe (hw old (List.mem_of_getElem? hold)) (hl i old hold hlead) hsub
      refine ⟨_, merge_redirect hw hold hlead hid htgt htl hwe habs f j r h hri, by simp [hri],
        fun hne => absurd hri hne, ?_⟩
      intro v hv; exact values_composePartial (wf_composePartial _ _) hwr hv
    · exact ⟨r, ufGetL_succ _ _ _ (set_unchanged hold hlead f j r h hri), by simp [hri], fun _ => rfl, fun v hv => hv⟩

/-- two ids with one leader have one leader after a valid write -/
theorem write_same_leader {uf : List AppId} (hw : UfWF' uf) (hl : LeaderId' uf) {i : Nat} {e : AppId}
    (hv : validWrite uf i e = true) {f g j k : Nat} {r q : AppId} (hj : ufGetL uf f j = some r)
    (hk : ufGetL uf g k = some q) (hsame : r.id = q.id) :
    ∃ f' g' r' q', ufGetL (ufSet uf i e) f' j = some r' ∧ ufGetL (ufSet uf i e) g' k = some q' ∧ r'.id = q'.id := by
  obtain ⟨r', h1, h2, _, _⟩ := write_redirect hw hl hv hj
  obtain ⟨q', h3, h4, _, _⟩ := write_redirect hw hl hv hk
  refine ⟨_, _, r', q', h1, h3, ?_⟩
  rw [h2, h4, hsame]

/-! ### every sequence of valid writes -/

/-- the id resolves (with some amount of fuel) to the leader invocation `r` -/
def Resolves (uf : List AppId) (j : Nat) (r : AppId) : Prop := ∃ f, ufGetL uf f j = some r

/-- **old handles stay valid for ever**: after any sequence of valid writes the table invariants hold, every id that
resolved still resolves and retains a subset of the arguments it retained, and ids that had one leader have one leader -/
theorem writes_monotone : ∀ (ws : List (Nat × AppId)) (uf uf' : List AppId), UfWF' uf → LeaderId' uf →
    applyWrites uf ws = some uf' →
    (UfWF' uf' ∧ LeaderId' uf') ∧
    (∀ j r, Resolves uf j r → ∃ r', Resolves uf' j r' ∧ ∀ v ∈ valuesVec r'.m, v ∈ valuesVec r.m) ∧
    (∀ j k r q, Resolves uf j r → Resolves uf k q → r.id = q.id →
      ∃ r' q', Resolves uf' j r' ∧ Resolves uf' k q' ∧ r'.id = q'.id)
  | [], uf, uf', hw, hl, h => by
    simp only [applyWrites, Option.some.injEq] at h
    subst h
    exact ⟨⟨hw, hl⟩, fun j r hr => ⟨r, hr, fun v hv => hv⟩, fun j k r q hr hq hs => ⟨r, q, hr, hq, hs⟩⟩
  | w :: ws, uf, uf', hw, hl, h => by
    simp only [applyWrites] at h
    split at h
    · rename_i hv
      obtain ⟨hw1, hl1⟩ := write_inv hw hl hv
      obtain ⟨hinv, hres, hsame⟩ := writes_monotone ws _ uf' hw1 hl1 h
      refine ⟨hinv, ?_, ?_⟩
      · intro j r ⟨f, hf⟩
        obtain ⟨r1, h1, _, _, hsub1⟩ := write_redirect hw hl hv hf
        obtain ⟨r2, h2, hsub2⟩ := hres j r1 ⟨_, h1⟩
        exact ⟨r2, h2, fun v hv => hsub1 v (hsub2 v hv)⟩
      · intro j k r q ⟨f, hf⟩ ⟨g, hg⟩ hs
        obtain ⟨f', g', r1, q1, h1, h2, h3⟩ := write_same_leader hw hl hv hf hg hs
        exact hsame j k r1 q1 ⟨_, h1⟩ ⟨_, h2⟩ h3
    · cases h

end Snap
end SV
