import SlotVerif.Proofs.Eval
/-!
The locally nameless conversion `Term.close` preserves meaning: evaluating the closed form with
de Bruijn environments equals evaluating the named term by names (`evalT_close`, `eval_close`).
Removes `Term.close` from the trusted base of the C03 statements.
-/
namespace SV.Eval
open SV SV.Term

theorem idxOf?_append (loc bn : List Nat) (s : Nat) :
    (loc ++ bn).idxOf? s = if s ∈ loc then loc.idxOf? s else (bn.idxOf? s).map (· + loc.length) := by
  induction loc with
  | nil => simp
  | cons a t ih =>
    simp only [List.cons_append, List.idxOf?_cons, ih, List.mem_cons, List.length_cons]
    by_cases ha : a = s
    · simp [ha]
    · have ha' : (a == s) = false := by simpa using ha
      have hs : ¬ s = a := fun h => ha h.symm
      simp only [ha', Bool.false_eq_true, if_false, hs, false_or]
      by_cases hm : s ∈ t
      · simp [hm]
      · simp only [hm, if_false, Option.map_map]
        congr 1

theorem idxOf?_lt {l : List Nat} {s i : Nat} (h : l.idxOf? s = some i) : i < l.length := by
  obtain ⟨hlt, _⟩ := List.idxOf?_eq_some_iff.mp h; exact hlt

def closeName (scope : List Nat) (s : Nat) : Nat :=
  match scope.idxOf? s with | some i => bvar i | none => s

theorem fieldSlots_close (bn : List Nat) : ∀ (f : Field) (loc : List Nat),
    fieldSlots (closeField bn f loc) loc.length = (fieldSlotsN f loc).map fun p => (p.1.length, closeName (p.1 ++ bn) p.2)
  | .slot s, loc => by simp only [closeField, fieldSlots, fieldSlotsN, closeName, List.map_cons, List.map_nil]; rfl
  | .app a, loc => by simp [closeField, fieldSlots, fieldSlotsN]
  | .lit v, loc => by simp [closeField, fieldSlots, fieldSlotsN]
  | .bind x f, loc => by
    simp only [closeField, fieldSlots, fieldSlotsN]
    have := fieldSlots_close bn f (x :: loc)
    simpa using this

theorem fieldAppDepths_close (bn : List Nat) : ∀ (f : Field) (loc : List Nat) (d : Nat),
    fieldAppDepths (closeField bn f loc) d = fieldAppDepths f d
  | .slot s, loc, d => rfl
  | .app a, loc, d => rfl
  | .lit v, loc, d => rfl
  | .bind x f, loc, d => by simp [closeField, fieldAppDepths, fieldAppDepths_close bn f]

theorem childDepths_close (bn : List Nat) (n : Node) : childDepths (closeNode bn n) = childDepths n := by
  unfold childDepths closeNode
  simp only
  induction n.fields with
  | nil => rfl
  | cons f t ih => simp only [List.map_cons, List.flatMap_cons, fieldAppDepths_close, ih]

theorem nodeLit_close (bn : List Nat) (n : Node) : nodeLit (closeNode bn n) = nodeLit n := by
  unfold nodeLit closeNode
  simp only
  match h : n.fields with
  | [] => simp
  | [.lit v] => simp [closeField]
  | [.slot s] => simp [closeField]
  | [.app a] => simp [closeField]
  | [.bind s f] => simp [closeField]
  | a :: b :: t => simp

theorem slotVal_close (bn loc : List Nat) (s : Nat) (benv : List F) (env : Nat → F) (hs : isBvar s = false) :
    slotVal loc.length benv env (closeName (loc ++ bn) s) = if s ∈ loc then 0 else envWith bn benv env s := by
  unfold closeName slotVal envWith
  rw [idxOf?_append]
  by_cases hm : s ∈ loc
  · simp only [hm, if_true]
    cases hi : loc.idxOf? s with
    | none => simp at hi; exact absurd hm hi
    | some i =>
      have := idxOf?_lt hi
      simp [isBvar_bvar, bvar_div, this]
  · simp only [hm, if_false]
    cases hi : bn.idxOf? s with
    | none => simp [hs]
    | some k =>
      simp only [Option.map_some, isBvar_bvar, if_true, bvar_div]
      have : ¬ (k + loc.length < loc.length) := by omega
      simp only [this, if_false]
      congr 1; omega

theorem nodeVals_close (bn : List Nat) (n : Node) (benv : List F) (env : Nat → F)
    (hs : ∀ p ∈ n.fields.flatMap (fieldSlotsN · []), isBvar p.2 = false) :
    nodeVals benv env (closeNode bn n) = nodeValsN (envWith bn benv env) n := by
  unfold nodeVals nodeValsN nodeSlots closeNode
  simp only [List.flatMap_map]
  have hf : ∀ f, fieldSlots (closeField bn f []) 0 = (fieldSlotsN f []).map fun p => (p.1.length, closeName (p.1 ++ bn) p.2) :=
    fun f => fieldSlots_close bn f []
  simp only [hf]
  rw [← List.map_flatMap, List.map_map]
  apply List.map_congr_left
  intro p hp
  simp only [Function.comp]
  rw [slotVal_close bn p.1 p.2 benv env (hs p hp)]

theorem fieldBinders_length : ∀ (f : Field) (acc : List Nat),
    (fieldBinders f acc).map List.length = fieldAppDepths f acc.length
  | .slot s, acc => rfl
  | .app a, acc => rfl
  | .lit v, acc => rfl
  | .bind x f, acc => by simp [fieldBinders, fieldAppDepths, fieldBinders_length f (x :: acc)]

theorem binderNames_length (n : Node) : (binderNames n).map List.length = childDepths n := by
  unfold binderNames childDepths
  induction n.fields with
  | nil => rfl
  | cons f t ih =>
    simp only [List.flatMap_cons, List.map_append, ih]
    rw [fieldBinders_length f []]; rfl

theorem envWith_append (names bn : List Nat) (vals benv : List F) (env : Nat → F) (hl : names.length = vals.length) :
    envWith (names ++ bn) (vals ++ benv) env = envWith names vals (envWith bn benv env) := by
  funext x
  unfold envWith
  rw [idxOf?_append]
  by_cases hm : x ∈ names
  · simp only [hm, if_true]
    cases hi : names.idxOf? x with
    | none => simp at hi; exact absurd hm hi
    | some i =>
      have := idxOf?_lt hi
      simp only
      rw [List.getD_eq_getElem?_getD, List.getD_eq_getElem?_getD, List.getElem?_append_left (by omega)]
  · simp only [hm, if_false]
    have hn : names.idxOf? x = none := by simpa using hm
    rw [hn]
    cases hi : bn.idxOf? x with
    | none => simp
    | some k =>
      simp only [Option.map_some]
      rw [List.getD_eq_getElem?_getD, List.getD_eq_getElem?_getD, List.getElem?_append_right (by omega)]
      congr 2; omega

mutual
/-- **the locally nameless conversion preserves meaning** -/
theorem evalT_close : ∀ (t : Term) (bn : List Nat) (benv : List F) (env : Nat → F),
    (∀ x ∈ occN t, isBvar x = false) → evalT (closeAt bn t) benv env = evalN t (envWith bn benv env)
  | .mk n cs, bn, benv, env, hok => by
    simp only [closeAt, evalT, evalN]
    rw [childDepths_close]
    have hv : (closeNode bn n).v = n.v := rfl
    rw [hv]
    split
    · rename_i hd
      apply evalNode_congr _ _ hv (nodeLit_close bn n)
      · apply nodeVals_close
        intro p hp
        apply hok
        simp only [occN, List.mem_append, List.mem_map]
        exact Or.inl ⟨p, hp, rfl⟩
      · intro i bs hi
        have hlen : ((binderNames n).map List.length)[i]? = some bs.length := by
          rw [binderNames_length, hd]; exact hi
        rw [List.getElem?_map] at hlen
        cases hnm : (binderNames n)[i]? with
        | none => rw [hnm] at hlen; simp at hlen
        | some names =>
          rw [hnm] at hlen
          have hl : names.length = bs.length := by simpa using hlen
          have hg : (binderNames n).getD i [] = names := by
            rw [List.getD_eq_getElem?_getD, hnm]; rfl
          rw [hg]
          exact evalTL_close cs (binderNames n) bn i names bs benv env
            (fun x hx => hok x (by simp only [occN, List.mem_append]; exact Or.inr hx)) hnm hl
    · rfl
theorem evalTL_close : ∀ (ts : List Term) (bss : List (List Nat)) (bn : List Nat) (i : Nat) (names : List Nat)
    (bs benv : List F) (env : Nat → F), (∀ x ∈ occNL ts, isBvar x = false) → bss[i]? = some names →
    names.length = bs.length →
    ((evalTL (closeAtL bn bss ts)).getD i (fun _ _ => 0)) (bs ++ benv) env =
      ((evalNL ts).getD i (fun _ => 0)) (envWith names bs (envWith bn benv env))
  | [], bss, bn, i, names, bs, benv, env, _, _, _ => by
    cases bss <;> simp [closeAtL, evalTL, evalNL]
  | t :: ts, [], bn, i, names, bs, benv, env, _, hi, _ => by simp at hi
  | t :: ts, b :: bss, bn, 0, names, bs, benv, env, hok, hi, hl => by
    simp only [closeAtL, evalTL, evalNL, List.getD_cons_zero]
    have hb : b = names := by simpa using hi
    subst hb
    rw [evalT_close t (b ++ bn) (bs ++ benv) env
      (fun x hx => hok x (by simp only [occNL, List.mem_append]; exact Or.inl hx))]
    rw [envWith_append b bn bs benv env hl]
  | t :: ts, b :: bss, bn, i + 1, names, bs, benv, env, hok, hi, hl => by
    simp only [closeAtL, evalTL, evalNL, List.getD_cons_succ]
    exact evalTL_close ts bss bn i names bs benv env
      (fun x hx => hok x (by simp only [occNL, List.mem_append]; exact Or.inr hx)) (by simpa using hi) hl
end

/-- a closed named term: its locally nameless form has the named meaning, whatever the binder stack -/
theorem eval_close (t : Term) (hok : ∀ x ∈ occN t, isBvar x = false) (benv : List F) (env : Nat → F) :
    eval benv env (Term.close t) = evalN t env := by
  unfold eval Term.close
  rw [evalT_close t [] benv env hok]
  congr 1

end SV.Eval
