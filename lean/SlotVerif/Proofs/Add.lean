import SlotVerif.Model.Add
import SlotVerif.Proofs.UfWrite
import SlotVerif.Proofs.Variants
/-!
# `EGraph::add` on a miss (`Snap.addNew`): nothing old changes

For every state `s`, node `n`, and every outcome `addNew s n f2o syn data = some (s', a)`:

* `addNew_form`        — `s'` is `s` with one union-find entry and one class appended (id = the old table length), the
                          returned invocation is that class applied to `f2o`;
* `find_survives_add`  — every handle that resolved in `s` resolves to the same invocation in `s'`;
* `cls_survives_add`   — every class of `s` is found unchanged in `s'`;
* `eq_survives_add`    — `eq` on old handles gives the same answer (C13: insertion never loses an equality and never
                          adds one between old handles);
* `add_hit_creates_nothing` — when `lookup` finds the node, the miss path is not taken (`addNew = none`).
-/
namespace SV
namespace Snap
open SlotMap

/-- the shape of every outcome of `addNew` -/
theorem addNew_form {s s' : Snap} {n syn : Node} {f2o : SlotMap} {data : String} {a : AppId}
    (h : addNew s n f2o syn data = some (s', a)) :
    ∃ (sh sh2 : Node) (bij bij2 : SlotMap) (perms : List Perm),
      s' = setNew (allocClass s (keys f2o) syn data) s.uf.length (sh2, bij2)
        (Grp.generators (addAll (Grp.mk (identity (keys f2o)) []) perms)) ∧
      a = { id := s.uf.length, m := f2o } ∧
      wfb f2o = true ∧ isBijection f2o = true ∧
      shape s n = some (sh, bij) ∧ lookupShape s sh bij = none ∧ (sh2 == sh) = true ∧ permsOK (keys f2o) perms = true := by
  unfold addNew at h
  split at h
  · simp at h
  · rename_i sh bij hshape
    split at h
    · simp at h
    · rename_i hmiss
      split at h
      · simp at h
      · rename_i hcond
        split at h
        · simp at h
        · dsimp only at h
          split at h
          · rename_i sh2 bij2 n1 _ _
            split at h
            · simp at h
            · rename_i hguard
              split at h
              · simp at h
              · split at h
                · simp at h
                · rename_i hperms
                  simp only [Option.some.injEq, Prod.mk.injEq] at h
                  refine ⟨sh, sh2, bij, bij2, _, h.1.symm, h.2.symm, ?_, ?_, hshape, hmiss, ?_, ?_⟩
                  · cases hw : wfb f2o <;> simp_all
                  · cases hw : wfb f2o <;> cases hb : isBijection f2o <;> simp_all
                  · cases hg : (sh2 == sh) <;> simp_all
                  · cases hg : permsOK (keys f2o) (selfSyms (allocClass s (keys f2o) syn data) n1) <;> simp_all
          · simp at h

theorem setNew_uf (s : Snap) (i : Nat) (node : Node × SlotMap) (gens : List Perm) : (setNew s i node gens).uf = s.uf := rfl

theorem addNew_uf {s s' : Snap} {n syn : Node} {f2o : SlotMap} {data : String} {a : AppId}
    (h : addNew s n f2o syn data = some (s', a)) :
    s'.uf = s.uf ++ [{ id := s.uf.length, m := identity (keys f2o) }] := by
  obtain ⟨_, _, _, _, _, hs, _⟩ := addNew_form h
  rw [hs, setNew_uf]; rfl

/-- C13 for insertions: an old handle resolves as before -/
theorem find_survives_add {s s' : Snap} {n syn : Node} {f2o : SlotMap} {data : String} {a b r : AppId}
    (h : addNew s n f2o syn data = some (s', a)) (hf : find s b = some r) : find s' b = some r := by
  have huf := addNew_uf h
  unfold find at hf ⊢
  rw [ufGet_eq_L] at hf ⊢
  cases hg : ufGetL s.uf (s.uf.length + 1) b.id with
  | none => rw [hg] at hf; simp at hf
  | some l =>
    rw [hg] at hf
    have h1 := append_unchanged ({ id := s.uf.length, m := identity (keys f2o) } : AppId) _ _ _ hg
    have h2 := ufGetL_le h1 (Nat.le_succ (s.uf.length + 1))
    rw [huf]
    have hlen : (s.uf ++ [({ id := s.uf.length, m := identity (keys f2o) } : AppId)]).length + 1 = (s.uf.length + 1).succ := by simp
    rw [hlen, h2]; exact hf

theorem find?_map_other (cs : List SClass) (i j : Nat) (hij : j ≠ i) (f : SClass → SClass) (hf : ∀ c, (f c).id = c.id) :
    (cs.map fun c => if c.id == i then f c else c).find? (·.id == j) = cs.find? (·.id == j) := by
  induction cs with
  | nil => rfl
  | cons c t ih =>
    rw [List.map_cons, List.find?_cons, List.find?_cons, ih]
    by_cases hci : c.id = i
    · have hcj : (c.id == j) = false := by
        rw [hci]; exact beq_false_of_ne (fun h => hij h.symm)
      have h1 : ((if (c.id == i) = true then f c else c).id == j) = false := by
        simp only [hci, beq_self_eq_true, if_true, hf]; rw [← hci]; exact hcj
      rw [h1, hcj]
    · have : (c.id == i) = false := beq_false_of_ne hci
      simp only [this, Bool.false_eq_true, if_false]

/-- every class other than the new one is found unchanged -/
theorem cls_survives_add {s s' : Snap} {n syn : Node} {f2o : SlotMap} {data : String} {a : AppId}
    (h : addNew s n f2o syn data = some (s', a)) {j : Nat} (hj : j ≠ s.uf.length) : cls s' j = cls s j := by
  obtain ⟨_, sh2, _, bij2, perms, hs, _⟩ := addNew_form h
  rw [hs]
  unfold cls setNew allocClass
  simp only
  rw [find?_map_other _ _ _ hj (fun c => { c with nodes := [(sh2, bij2)], gens := Grp.generators (addAll (Grp.mk (identity (keys f2o)) []) perms) }) (fun _ => rfl)]
  rw [List.find?_append]
  cases hc : s.classes.find? (·.id == j) with
  | some c => simp
  | none =>
    simp only [Option.none_or, List.find?_cons, List.find?_nil]
    have : (s.uf.length == j) = false := by simp; exact fun h => hj h.symm
    simp [this]

/-- the leader a resolution ends in is an entry of the table -/
theorem find_id_lt {s : Snap} (hw : UfWF s) {b r : AppId} (hf : find s b = some r) : r.id < s.uf.length := by
  unfold find at hf
  rw [ufGet_eq_L] at hf
  cases hg : ufGetL s.uf (s.uf.length + 1) b.id with
  | none => rw [hg] at hf; simp at hf
  | some l =>
    rw [hg] at hf
    simp only [Option.map_some, Option.some.injEq] at hf
    obtain ⟨e, he, _, _⟩ := ufGetL_form hw _ _ _ hg
    have := (List.getElem?_eq_some_iff.mp he).1
    rw [← hf]; exact this

/-- C13 for insertions: `eq` on old handles is unchanged by an insertion -/
theorem eq_survives_add {s s' : Snap} {n syn : Node} {f2o : SlotMap} {data : String} {a b c : AppId} {r : Bool}
    (hw : UfWF s) (h : addNew s n f2o syn data = some (s', a)) (he : eq s b c = some r) : eq s' b c = some r := by
  unfold eq at he ⊢
  cases hb : find s b with
  | none => rw [hb] at he; simp at he
  | some b' =>
    cases hc : find s c with
    | none => rw [hb, hc] at he; simp at he
    | some c' =>
      rw [hb, hc] at he
      rw [find_survives_add h hb, find_survives_add h hc]
      simp only at he ⊢
      have hlt := find_id_lt hw hb
      rw [cls_survives_add h (Nat.ne_of_lt hlt)]
      exact he

/-- "known terms create nothing": when the node is found, `add` does not take the miss path -/
theorem add_hit_creates_nothing {s : Snap} {n syn : Node} {f2o : SlotMap} {data : String} {x : AppId}
    (h : lookup s n = some x) : addNew s n f2o syn data = none := by
  unfold lookup at h
  unfold addNew
  cases hs : shape s n with
  | none => rfl
  | some p =>
    obtain ⟨sh, bij⟩ := p
    rw [hs] at h
    simp only at h ⊢
    rw [h]

/-- the new class is alive and is its own leader; the returned handle is the new id -/
theorem add_new_alive {s s' : Snap} {n syn : Node} {f2o : SlotMap} {data : String} {a : AppId}
    (h : addNew s n f2o syn data = some (s', a)) : a.id = s.uf.length ∧ isAlive s' a.id = true ∧ isAlive s a.id = false := by
  obtain ⟨_, _, _, _, _, _, ha, _⟩ := addNew_form h
  have huf := addNew_uf h
  subst ha
  refine ⟨rfl, ?_, ?_⟩
  · unfold isAlive; rw [huf]; simp
  · unfold isAlive; simp

end Snap
end SV

/-! ## `lookup` after the insertion

`shape` of a node that could be shaped before is the same function of the state afterwards (its children resolve as
before, their classes are untouched); the hashcons then holds the stored shape of the new class. -/
namespace SV
namespace Snap
open SlotMap

theorem go_ext {s s' : Snap} (hfind : ∀ b r, find s b = some r → find s' b = some r) :
    ∀ (f f' : Field), findNode.go s f = some f' → findNode.go s' f = some f'
  | .slot x, f', h => by simp only [findNode.go] at h ⊢; exact h
  | .lit v, f', h => by simp only [findNode.go] at h ⊢; exact h
  | .app a, f', h => by
    simp only [findNode.go, Option.map_eq_some_iff] at h
    obtain ⟨b, hb, rfl⟩ := h
    simp only [findNode.go, hfind a b hb, Option.map_some]
  | .bind x f, f', h => by
    simp only [findNode.go, Option.map_eq_some_iff] at h
    obtain ⟨g, hg, rfl⟩ := h
    simp only [findNode.go, go_ext hfind f g hg, Option.map_some]

theorem mapM_go_ext {s s' : Snap} (hfind : ∀ b r, find s b = some r → find s' b = some r) :
    ∀ (fs gs : List Field), fs.mapM (findNode.go s) = some gs → fs.mapM (findNode.go s') = some gs
  | [], gs, h => by simpa using h
  | f :: fs, gs, h => by
    simp only [List.mapM_cons, Option.bind_eq_bind, Option.bind_eq_some_iff, Option.pure_def, Option.some.injEq] at h
    obtain ⟨g, hg, gs', hgs', rfl⟩ := h
    simp [List.mapM_cons, go_ext hfind f g hg, mapM_go_ext hfind fs gs' hgs']

theorem findNode_ext {s s' : Snap} (hfind : ∀ b r, find s b = some r → find s' b = some r) {n n' : Node}
    (h : findNode s n = some n') : findNode s' n = some n' := by
  unfold findNode at h ⊢
  simp only [Option.map_eq_some_iff] at h
  obtain ⟨fs, hfs, rfl⟩ := h
  simp only [mapM_go_ext hfind _ _ hfs, Option.map_some]

/-- the children of a canonicalised e-node are invocations of leaders of the table -/
theorem go_ids {s : Snap} (hw : UfWF s) : ∀ (f f' : Field), findNode.go s f = some f' →
    ∀ a ∈ Field.appOcc f', a.id < s.uf.length
  | .slot x, f', h => by simp only [findNode.go, Option.some.injEq] at h; subst h; simp [Field.appOcc]
  | .lit v, f', h => by simp only [findNode.go, Option.some.injEq] at h; subst h; simp [Field.appOcc]
  | .app a, f', h => by
    simp only [findNode.go, Option.map_eq_some_iff] at h
    obtain ⟨b, hb, rfl⟩ := h
    intro c hc
    simp only [Field.appOcc, List.mem_singleton] at hc
    subst hc; exact find_id_lt hw hb
  | .bind x f, f', h => by
    simp only [findNode.go, Option.map_eq_some_iff] at h
    obtain ⟨g, hg, rfl⟩ := h
    intro c hc
    simp only [Field.appOcc] at hc
    exact go_ids hw f g hg c hc

theorem mapM_go_ids {s : Snap} (hw : UfWF s) : ∀ (fs gs : List Field), fs.mapM (findNode.go s) = some gs →
    ∀ a ∈ gs.flatMap Field.appOcc, a.id < s.uf.length
  | [], gs, h => by simp at h; subst h; simp
  | f :: fs, gs, h => by
    simp only [List.mapM_cons, Option.bind_eq_bind, Option.bind_eq_some_iff, Option.pure_def, Option.some.injEq] at h
    obtain ⟨g, hg, gs', hgs', rfl⟩ := h
    intro a ha
    simp only [List.flatMap_cons, List.mem_append] at ha
    rcases ha with ha | ha
    · exact go_ids hw f g hg a ha
    · exact mapM_go_ids hw fs gs' hgs' a ha

theorem findNode_ids {s : Snap} (hw : UfWF s) {n n' : Node} (h : findNode s n = some n') :
    ∀ a ∈ Node.appOcc n', a.id < s.uf.length := by
  unfold findNode at h
  simp only [Option.map_eq_some_iff] at h
  obtain ⟨fs, hfs, rfl⟩ := h
  exact mapM_go_ids hw _ _ hfs

theorem variants_grpOf (s : Snap) (n : Node) : variants s n =
    if ((Node.appOcc n).map (grpOf s)).all (fun g => g.length ≤ 1) then [n]
    else (cartesian ((Node.appOcc n).map (grpOf s))).map fun ps =>
      withApps n (((Node.appOcc n).zip ps).map fun (a, p) => applyPerm p a) := rfl

theorem variants_ext {s s' : Snap} {n : Node} (hcls : ∀ a ∈ Node.appOcc n, cls s' a.id = cls s a.id) :
    variants s' n = variants s n := by
  have : (Node.appOcc n).map (grpOf s') = (Node.appOcc n).map (grpOf s) :=
    List.map_congr_left (fun a ha => by unfold grpOf; rw [hcls a ha])
  rw [variants_grpOf, variants_grpOf, this]

theorem shape_ext {s s' : Snap} (hw : UfWF s) (hfind : ∀ b r, find s b = some r → find s' b = some r)
    (hcls : ∀ j, j < s.uf.length → cls s' j = cls s j) {n : Node} {r : Node × SlotMap} (h : shape s n = some r) :
    shape s' n = some r := by
  unfold shape preShape at h ⊢
  cases hf : findNode s n with
  | none => rw [hf] at h; simp at h
  | some n' =>
    rw [hf] at h
    rw [findNode_ext hfind hf]
    simp only at h ⊢
    rw [variants_ext (fun a ha => hcls a.id (findNode_ids hw hf a ha))]
    exact h

theorem findSome_append_new {α β} (cs : List α) (c : α) (g : α → Option β) {r : β}
    (hold : cs.findSome? g = none) (hc : g c = some r) : (cs ++ [c]).findSome? g = some r := by
  rw [List.findSome?_append, hold]
  simp only [Option.none_or, List.findSome?_cons, hc]

theorem map_id_of_ne (cs : List SClass) (i : Nat) (f : SClass → SClass) (h : ∀ c ∈ cs, c.id ≠ i) :
    (cs.map fun c => if c.id == i then f c else c) = cs := by
  induction cs with
  | nil => rfl
  | cons c t ih =>
    have hc : (c.id == i) = false := beq_false_of_ne (h c (List.mem_cons_self ..))
    rw [List.map_cons, ih (fun d hd => h d (List.mem_cons_of_mem _ hd))]
    simp only [hc, Bool.false_eq_true, if_false]

/-- **lookup agrees with add**: after an insertion that created a class, `lookup` of the inserted node finds that class -/
theorem lookup_after_add {s s' : Snap} {n syn : Node} {f2o : SlotMap} {data : String} {a : AppId}
    (hw : UfWF s) (hids : ∀ c ∈ s.classes, c.id ≠ s.uf.length)
    (h : addNew s n f2o syn data = some (s', a)) : ∃ m, lookup s' n = some { id := a.id, m := m } := by
  obtain ⟨sh, sh2, bij, bij2, perms, hs, ha, _, _, hshape, hmiss, hguard, _⟩ := addNew_form h
  have hshape' : shape s' n = some (sh, bij) :=
    shape_ext hw (fun b r hb => find_survives_add h hb) (fun j hj => cls_survives_add h (Nat.ne_of_lt hj)) hshape
  unfold lookup
  rw [hshape']
  simp only
  subst ha
  rw [hs]
  unfold lookupShape at hmiss ⊢
  unfold setNew allocClass
  simp only [List.map_append, List.map_cons, List.map_nil, beq_self_eq_true, if_true]
  rw [map_id_of_ne _ _ _ hids]
  refine ⟨(composePartial (inverse bij2) bij).filter (fun p => (keys f2o).contains p.1), findSome_append_new _ _ _ hmiss ?_⟩
  simp only [List.find?_cons, hguard]

/-- **known terms stay known**: a node that `lookup` found before the insertion is found afterwards, with the same result -/
theorem lookup_survives_add {s s' : Snap} {n m syn : Node} {f2o : SlotMap} {data : String} {a x : AppId}
    (hw : UfWF s) (hids : ∀ c ∈ s.classes, c.id ≠ s.uf.length)
    (h : addNew s n f2o syn data = some (s', a)) (hl : lookup s m = some x) : lookup s' m = some x := by
  obtain ⟨sh, sh2, bij, bij2, perms, hs, ha, _, _, _, _, _, _⟩ := addNew_form h
  unfold lookup at hl ⊢
  cases hsm : shape s m with
  | none => rw [hsm] at hl; simp at hl
  | some p =>
    obtain ⟨shm, bijm⟩ := p
    rw [hsm] at hl
    have hshape' : shape s' m = some (shm, bijm) :=
      shape_ext hw (fun b r hb => find_survives_add h hb) (fun j hj => cls_survives_add h (Nat.ne_of_lt hj)) hsm
    rw [hshape']
    simp only at hl ⊢
    rw [hs]
    unfold lookupShape at hl ⊢
    unfold setNew allocClass
    simp only [List.map_append, List.map_cons, List.map_nil, beq_self_eq_true, if_true]
    rw [map_id_of_ne _ _ _ hids, List.findSome?_append, hl]
    rfl

/-- the part of the state invariant the theorems about insertions need: a well-formed table, no class id beyond it -/
def AddOK (s : Snap) : Prop := UfWF s ∧ ∀ c ∈ s.classes, c.id < s.uf.length

theorem addOK_ids {s : Snap} (h : AddOK s) : ∀ c ∈ s.classes, c.id ≠ s.uf.length :=
  fun c hc => Nat.ne_of_lt (h.2 c hc)

/-- an insertion keeps it -/
theorem addOK_add {s s' : Snap} {n syn : Node} {f2o : SlotMap} {data : String} {a : AppId}
    (hok : AddOK s) (h : addNew s n f2o syn data = some (s', a)) : AddOK s' := by
  obtain ⟨sh, sh2, bij, bij2, gens, hs, _⟩ := addNew_form h
  have huf := addNew_uf h
  refine ⟨?_, ?_⟩
  · intro e he
    rw [huf, List.mem_append] at he
    rcases he with he | he
    · exact hok.1 e he
    · simp only [List.mem_singleton] at he
      subst he; exact wf_identity _
  · intro c hc
    rw [huf, List.length_append, List.length_singleton]
    rw [hs] at hc
    unfold setNew allocClass at hc
    simp only [List.mem_map, List.mem_append, List.mem_singleton] at hc
    obtain ⟨d, hd, rfl⟩ := hc
    have hdid : d.id < s.uf.length + 1 := by
      rcases hd with hd | hd
      · exact Nat.lt_succ_of_lt (hok.2 d hd)
      · subst hd; exact Nat.lt_succ_self _
    split <;> exact hdid

/-- any number of insertions, one after the other -/
inductive Inserts : Snap → Snap → Prop
  | refl (s : Snap) : Inserts s s
  | step {s s' s'' : Snap} {n syn : Node} {f2o : SlotMap} {data : String} {a : AppId}
      (h : addNew s n f2o syn data = some (s', a)) (rest : Inserts s' s'') : Inserts s s''

/-- **for every sequence of insertions**: the invariant is kept, every old handle resolves as before, `eq` on old handles
answers as before, every node that was represented stays represented by the same invocation -/
theorem inserts_preserve {s s'' : Snap} (hok : AddOK s) (hi : Inserts s s'') :
    AddOK s'' ∧ (∀ b r, find s b = some r → find s'' b = some r) ∧
    (∀ b c r, eq s b c = some r → eq s'' b c = some r) ∧
    (∀ m x, lookup s m = some x → lookup s'' m = some x) := by
  induction hi with
  | refl s => exact ⟨hok, fun _ _ h => h, fun _ _ _ h => h, fun _ _ h => h⟩
  | step h _ ih =>
    obtain ⟨hok'', hf, he, hl⟩ := ih (addOK_add hok h)
    exact ⟨hok'', fun b r hb => hf b r (find_survives_add h hb),
      fun b c r hb => he b c r (eq_survives_add hok.1 h hb),
      fun m x hm => hl m x (lookup_survives_add hok.1 (addOK_ids hok) h hm)⟩

/-- **`add` and `lookup` agree, on both paths**: whatever `add` returns, `lookup` of the same node afterwards names the same class -/
theorem lookup_after_add_total {s s' : Snap} {n syn : Node} {f2o : SlotMap} {data : String} {a : AppId}
    (hok : AddOK s) (h : add s n f2o syn data = some (s', a)) : ∃ m, lookup s' n = some { id := a.id, m := m } := by
  unfold add at h
  cases hl : lookup s n with
  | some x =>
    rw [hl] at h
    simp only [Option.some.injEq, Prod.mk.injEq] at h
    obtain ⟨hs, ha⟩ := h
    subst hs; subst ha
    exact ⟨x.m, hl⟩
  | none =>
    rw [hl] at h
    exact lookup_after_add hok.1 (addOK_ids hok) h

/-- a hit changes nothing at all; a miss changes nothing old -/
theorem add_preserves {s s' : Snap} {n syn : Node} {f2o : SlotMap} {data : String} {a : AppId}
    (hok : AddOK s) (h : add s n f2o syn data = some (s', a)) :
    AddOK s' ∧ (∀ b r, find s b = some r → find s' b = some r) ∧
    (∀ b c r, eq s b c = some r → eq s' b c = some r) ∧ (∀ m x, lookup s m = some x → lookup s' m = some x) := by
  unfold add at h
  cases hl : lookup s n with
  | some x =>
    rw [hl] at h
    simp only [Option.some.injEq, Prod.mk.injEq] at h
    obtain ⟨hs, _⟩ := h
    subst hs
    exact ⟨hok, fun _ _ h => h, fun _ _ _ h => h, fun _ _ h => h⟩
  | none =>
    rw [hl] at h
    exact ⟨addOK_add hok h, fun b r hb => find_survives_add h hb, fun b c r hb => eq_survives_add hok.1 h hb,
      fun m x hm => lookup_survives_add hok.1 (addOK_ids hok) h hm⟩

/-- a second `add` of the same node is a hit: it returns an invocation of the same class and creates nothing -/
theorem add_twice {s s' : Snap} {n syn syn2 : Node} {f2o f2o2 : SlotMap} {data data2 : String} {a : AppId}
    (hok : AddOK s) (h : add s n f2o syn data = some (s', a)) :
    ∃ m, add s' n f2o2 syn2 data2 = some (s', { id := a.id, m := m }) := by
  obtain ⟨m, hm⟩ := lookup_after_add_total hok h
  exact ⟨m, by unfold add; rw [hm]⟩

/-! ## the union-find write of an insertion is a valid `alloc` write of the write model (`Model/UfWrite.lean`) -/

theorem wfb_of_wf : ∀ (m : SlotMap), WF m → wfb m = true
  | [], _ => rfl
  | [_], _ => rfl
  | a :: b :: t, h => by
    rw [wf_cons] at h
    simp only [wfb, Bool.and_eq_true, decide_eq_true_eq]
    exact ⟨h.1 b (List.mem_cons_self ..), wfb_of_wf (b :: t) h.2⟩

theorem identity_isPartialId (F : List Nat) : isPartialId (identity F) = true := by
  rw [isPartialId_iff]
  intro p hp
  have h1 : get (identity F) p.1 = some p.2 := (get_eq_some_iff (wf_identity F) p.1 p.2).mpr hp
  rw [get_identity] at h1
  split at h1
  · simpa using h1
  · simp at h1

/-- the table after an insertion is the table before with one write that passes the guard of the write model: everything
`Proofs/UfWrite.lean` proves of valid writes (`write_inv`, `write_redirect`, `writes_monotone`) applies to insertions -/
theorem addNew_is_valid_write {s s' : Snap} {n syn : Node} {f2o : SlotMap} {data : String} {a : AppId}
    (h : addNew s n f2o syn data = some (s', a)) :
    validWrite s.uf s.uf.length { id := s.uf.length, m := identity (keys f2o) } = true ∧
    s'.uf = ufSet s.uf s.uf.length { id := s.uf.length, m := identity (keys f2o) } := by
  refine ⟨?_, ?_⟩
  · unfold validWrite
    simp only [wfb_of_wf _ (wf_identity _), if_true, beq_self_eq_true, identity_isPartialId, Bool.and_self]
  · rw [addNew_uf h]; unfold ufSet; simp

/-! ## the returned invocation is canonical -/

theorem compose_identity_left {m : SlotMap} (hm : WF m) : composePartial (identity (keys m)) m = m := by
  apply ext (wf_composePartial _ _) hm
  intro k
  rw [get_composePartial (wf_identity _), get_identity]
  by_cases hk : k ∈ keys m
  · simp [hk]
  · simp only [hk, if_false, Option.bind_none]
    cases hg : get m k with
    | none => rfl
    | some v =>
      exfalso; apply hk
      exact List.mem_map.mpr ⟨(k, v), (get_eq_some_iff hm k v).mp hg, rfl⟩

/-- the invocation an insertion returns is already canonical (`find` leaves it as it is), and the leader entry of the new class
is the identity on its slots — the form of entry the theorems about merges and shrinks (`equalities_survive_merge`, …) start from -/
theorem add_returns_canonical {s s' : Snap} {n syn : Node} {f2o : SlotMap} {data : String} {a : AppId}
    (h : addNew s n f2o syn data = some (s', a)) :
    s'.uf[a.id]? = some { id := a.id, m := identity (keys f2o) } ∧ find s' a = some a := by
  obtain ⟨_, _, _, _, _, _, ha, hwf, _⟩ := addNew_form h
  have huf := addNew_uf h
  subst ha
  have hentry : s'.uf[s.uf.length]? = some { id := s.uf.length, m := identity (keys f2o) } := by
    rw [huf]; simp
  refine ⟨hentry, ?_⟩
  unfold find
  have hlen : s'.uf.length + 1 = (s.uf.length + 1) + 1 := by rw [huf]; simp
  rw [hlen, ufGet_leader hentry rfl]
  simp only [Option.map_some, compose_identity_left (wf_of_wfb _ hwf)]

end Snap
end SV
