import SlotVerif.Proofs.EqEquiv
import SlotVerif.Proofs.Restrict
import SlotVerif.Proofs.UfWrite
/-!
# Equalities survive a shrink

`shrink_slots` (`/repo/src/egraph/rebuild.rs`) changes three things of a class at once: the slot set (`cap` instead of `Ω`), the
leader's union-find entry (the identity on `cap`, `record_redundancy_witness`) and the group (the generators restricted to
`cap`).  Here: **two invocations that compared equal before compare equal afterwards** — the canonical forms are the old ones
restricted to `cap` (`Proofs/UfWrite.lean: shrink_redirect`), they still have the same set of argument names because the
permutation between them preserves `cap`, and that permutation restricted to `cap` lies in the group of the restricted
generators (`Proofs/Restrict.lean: gen_restrict_iff`).  For every class, every `cap ⊆ Ω` preserved by the generators, every
pair of embedded invocations.
-/
namespace SV.Snap
open SV SV.SlotMap SV.Grp

/-- the canonical form after the shrink: the old one restricted to the retained slots -/
theorem get_restrictKeys {Ω cap : List Nat} {A : SlotMap} (x : Nat) :
    get (composePartial (identity cap) A) x = if x ∈ cap then get A x else none := by
  rw [get_composePartial (wf_identity cap), get_identity]
  by_cases hx : x ∈ cap <;> simp [hx]

theorem isEmb_restrictKeys {Ω cap : List Nat} {A : SlotMap} (hA : IsEmb Ω A) (hsub : ∀ x ∈ cap, x ∈ Ω) :
    IsEmb cap (composePartial (identity cap) A) where
  wf := wf_composePartial _ _
  tot := by
    intro x hx
    obtain ⟨y, hy⟩ := hA.tot x (hsub x hx)
    exact ⟨y, by rw [get_restrictKeys (Ω := Ω)]; simp [hx, hy]⟩
  dom := by
    intro x y h
    rw [get_restrictKeys (Ω := Ω)] at h
    by_cases hx : x ∈ cap
    · exact hx
    · simp [hx] at h
  inj := by
    intro x x' y h h'
    rw [get_restrictKeys (Ω := Ω)] at h h'
    by_cases hx : x ∈ cap <;> by_cases hx' : x' ∈ cap <;> simp [hx, hx'] at h h'
    exact hA.inj x x' y h h'

/-- the permutation between the restricted forms is the restriction of the permutation between the old ones -/
theorem comp_inv_restrict {Ω cap : List Nat} {A B : SlotMap} (hA : IsEmb Ω A) (hB : IsEmb Ω B)
    (hv : ∀ v, v ∈ valuesVec A ↔ v ∈ valuesVec B) (hsub : ∀ x ∈ cap, x ∈ Ω)
    (hpr : Pres cap (composePartial A (inverse B))) :
    (∀ v, v ∈ valuesVec (composePartial (identity cap) A) ↔ v ∈ valuesVec (composePartial (identity cap) B)) ∧
    composePartial (composePartial (identity cap) A) (inverse (composePartial (identity cap) B)) =
      restrict cap (composePartial A (inverse B)) := by
  have hA' := isEmb_restrictKeys hA hsub
  have hB' := isEmb_restrictKeys hB hsub
  have hπ := isPerm_comp_inv hA hB hv
  have hvals : ∀ v, v ∈ valuesVec (composePartial (identity cap) A) ↔ v ∈ valuesVec (composePartial (identity cap) B) := by
    intro v
    rw [mem_values_iff_get hA'.wf, mem_values_iff_get hB'.wf]
    constructor
    · rintro ⟨x, hx⟩
      rw [get_restrictKeys (Ω := Ω)] at hx
      by_cases hxc : x ∈ cap
      · simp only [hxc, if_true] at hx
        obtain ⟨y, _, hy⟩ := hπ.tot x (hsub x hxc)
        obtain ⟨w, hw1, hw2⟩ := (get_comp_inv hA hB x y).mp hy
        rw [hx] at hw1
        have : v = w := Option.some.inj hw1
        subst this
        exact ⟨y, by rw [get_restrictKeys (Ω := Ω)]; simp [(hpr x y hy).mp hxc, hw2]⟩
      · simp [hxc] at hx
    · rintro ⟨y, hy⟩
      rw [get_restrictKeys (Ω := Ω)] at hy
      by_cases hyc : y ∈ cap
      · simp only [hyc, if_true] at hy
        obtain ⟨x, hx⟩ := hπ.surj y (hsub y hyc)
        obtain ⟨w, hw1, hw2⟩ := (get_comp_inv hA hB x y).mp hx
        rw [hy] at hw2
        have : v = w := Option.some.inj hw2
        subst this
        exact ⟨x, by rw [get_restrictKeys (Ω := Ω)]; simp [(hpr x y hx).mpr hyc, hw1]⟩
      · simp [hyc] at hy
  refine ⟨hvals, ?_⟩
  apply IsPerm.ext (isPerm_comp_inv hA' hB' hvals) (isPerm_restrict hπ hsub hpr)
  intro x hx
  obtain ⟨y, _, hy⟩ := hπ.tot x (hsub x hx)
  have hyc : y ∈ cap := (hpr x y hy).mp hx
  obtain ⟨w, hw1, hw2⟩ := (get_comp_inv hA hB x y).mp hy
  rw [get_restrict]
  simp only [hx, if_true, hy]
  exact (get_comp_inv hA' hB' x y).mpr ⟨w, by rw [get_restrictKeys (Ω := Ω)]; simp [hx, hw1],
    by rw [get_restrictKeys (Ω := Ω)]; simp [hyc, hw2]⟩

/-- `find` after the leader's entry became the identity on `cap` -/
theorem find_after_shrink {s s' : Snap} {i : Nat} {Ω cap : List Nat} (hok : ufOK s = true)
    (hold : s.uf[i]? = some ⟨i, identity Ω⟩) (hsub : ∀ x ∈ cap, x ∈ Ω)
    (huf : s'.uf = s.uf.set i ⟨i, identity cap⟩) {a : AppId} {A : SlotMap} (ha : find s a = some ⟨i, A⟩) :
    find s' a = some ⟨i, composePartial (identity cap) A⟩ := by
  obtain ⟨hw, hl⟩ := ufOK_sound hok
  unfold find at ha ⊢
  rw [ufGet_eq_L] at ha ⊢
  cases hr : ufGetL s.uf (s.uf.length + 1) a.id with
  | none => rw [hr] at ha; simp at ha
  | some r =>
    rw [hr] at ha
    simp only [Option.map_some, Option.some.injEq, AppId.mk.injEq] at ha
    obtain ⟨hri, hA⟩ := ha
    have habs : composePartial (identity cap) (identity Ω) = identity cap := by
      apply compose_partialId_partialId (wf_identity cap) (wf_identity Ω)
      · intro p hp
        have := (get_eq_some_iff (wf_identity cap) p.1 p.2).mpr hp
        rw [get_identity] at this
        by_cases h : p.1 ∈ cap <;> simp [h] at this; exact this
      · intro p hp
        have := (get_eq_some_iff (wf_identity Ω) p.1 p.2).mpr hp
        rw [get_identity] at this
        by_cases h : p.1 ∈ Ω <;> simp [h] at this; exact this
      · intro v hv
        obtain ⟨p, hp, rfl⟩ := List.mem_map.mp hv
        have := (get_eq_some_iff (wf_identity cap) p.1 p.2).mpr hp
        rw [get_identity] at this
        by_cases h : p.1 ∈ cap
        · have hΩ := hsub _ h
          exact List.mem_map.mpr ⟨(p.1, p.1), (get_eq_some_iff (wf_identity Ω) _ _).mp (get_identity_of_mem hΩ), rfl⟩
        · simp [h] at this
    have hred := shrink_redirect (uf := s.uf) hw (i := i) (old := ⟨i, identity Ω⟩) (e := ⟨i, identity cap⟩) hold rfl rfl
      (wf_identity cap) habs (s.uf.length + 1) a.id r hr hri
    have hlen : s'.uf.length = s.uf.length := by rw [huf]; simp
    rw [huf] at *
    simp only [List.length_set]
    rw [hred]
    simp only [Option.map_some, Option.some.injEq, AppId.mk.injEq, true_and]
    rw [compose_assoc (wf_identity cap) (ufGetL_wf hw hr), hA]

/-- **equalities survive a shrink**: the class keeps the slots `cap`, its leader entry becomes the identity on `cap`, its
group is rebuilt from the restricted generators (all of which preserve `cap`); two embedded invocations of the class that
compared equal before compare equal afterwards -/
theorem eq_survives_shrink {s s' : Snap} {c c' : SClass} {cap : List Nat} (hok : ufOK s = true)
    (hcls : cls s c.id = some c) (hv : Valid c.slots c.gens)
    (hold : s.uf[c.id]? = some ⟨c.id, identity c.slots⟩)
    (hsub : ∀ x ∈ cap, x ∈ c.slots) (hg : ∀ g ∈ c.gens, Pres cap g)
    (huf : s'.uf = s.uf.set c.id ⟨c.id, identity cap⟩)
    (hcls' : cls s' c.id = some c') (hid : c'.id = c.id) (hslots : c'.slots = cap)
    (hgens : c'.gens = c.gens.map (restrict cap))
    {a b : AppId} {A B : SlotMap} (ha : find s a = some ⟨c.id, A⟩) (hb : find s b = some ⟨c.id, B⟩)
    (hA : IsEmb c.slots A) (hB : IsEmb c.slots B) (h : eq s a b = some true) : eq s' a b = some true := by
  obtain ⟨hvals, hgen⟩ := (eq_true_iff hcls hv ha hb hA hB).mp h
  have hπ := isPerm_comp_inv hA hB hvals
  have hpr : Pres cap (composePartial A (inverse B)) := Gen.pres hv hg hgen
  obtain ⟨hvals', hcomp⟩ := comp_inv_restrict hA hB hvals hsub hpr
  have ha' := find_after_shrink hok hold hsub huf ha
  have hb' := find_after_shrink hok hold hsub huf hb
  have hcls'' : cls s' c'.id = some c' := by rw [hid]; exact hcls'
  have hv' : Valid c'.slots c'.gens := by rw [hslots, hgens]; exact valid_restrict hv hsub hg
  rw [← hid] at ha' hb'
  have hA' : IsEmb c'.slots (composePartial (identity cap) A) := by rw [hslots]; exact isEmb_restrictKeys hA hsub
  have hB' : IsEmb c'.slots (composePartial (identity cap) B) := by rw [hslots]; exact isEmb_restrictKeys hB hsub
  rw [eq_true_iff hcls'' hv' ha' hb' hA' hB']
  refine ⟨hvals', ?_⟩
  rw [hcomp, hslots, hgens]
  exact (gen_restrict_iff hv hsub hg _).mpr ⟨_, hgen, rfl⟩

end SV.Snap
