import SlotVerif.Proofs.ShapeApply
import SlotVerif.Proofs.Add
/-
The bijection `weak_shape` returns (`Model/Node.lean: Node.weakShape n = (shape, inverse renaming)`), for every node: it is a
well-formed map and injective — the first two conjuncts of `nodeOK` (`Model/SnapInv.lean`) for an entry that is `weakShape` of a node.
-/
namespace SV
open SlotMap

/-- the final renaming of a `weak_shape` run is a well-formed injective map -/
theorem Node.weakShape_state (n : Node) :
    WF (Node.weakShapeFields n.fields ([], 0)).2.1 ∧ Inj (Node.weakShapeFields n.fields ([], 0)).2.1 := by
  obtain ⟨i, _⟩ := ShapeDecode.inv_weakShapeFields n.fields ShapeDecode.inv_init
  exact ⟨i.wf, ShapeApply.inj_of_inv i⟩

/-- **the bijection `weak_shape` returns is well formed and injective**, for every node -/
theorem Node.weakShape_bij_ok (n : Node) : wfb (Node.weakShape n).2 = true ∧ isBijection (Node.weakShape n).2 = true := by
  obtain ⟨hw, hi⟩ := Node.weakShape_state n
  have h2 : (Node.weakShape n).2 = inverse (Node.weakShapeFields n.fields ([], 0)).2.1 := rfl
  rw [h2]
  exact ⟨Snap.wfb_of_wf _ (wf_inverse _), (isBijection_iff _).mpr (inj_inverse hw hi)⟩

end SV
