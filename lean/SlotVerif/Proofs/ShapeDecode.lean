import SlotVerif.Model.Node
import SlotVerif.Proofs.SlotMap
import SlotVerif.Proofs.Shape
/-!
`weak_shape` loses nothing but names: every node is recovered from its shape by renaming the
shape's numbers back (`decode`), where the `k`-th number stands for the name that was given it.
Consequence: two nodes with the same shape are both renamings of that one shape — and if neither
reuses a name for two different variables, they are injective renamings of each other
(the converse of `weakShape_rename`; C16).
-/
namespace SV.ShapeDecode
open SV SV.SlotMap SV.Field

/-- the names that receive a fresh number while a slot / a map / a field is processed, in order -/
def extSee (s : Nat) (st : WS) : List Nat :=
  match SlotMap.get st.1 s with
  | some _ => []
  | none => [s]

def extValues : List (Nat × Nat) → WS → List Nat
  | [], _ => []
  | (_, v) :: t, st => extSee v st ++ extValues t (onSeeSlot v st).2

def extField : Field → WS → List Nat
  | .slot s, st => extSee s st
  | .app a, st => extValues a.m st
  | .bind s f, st => s :: extField f (addSlot s st).2
  | .lit _, _ => []

def extFields : List Field → WS → List Nat
  | [], _ => []
  | f :: t, st => extField f st ++ extFields t (Field.weakShape f st).2

/-- the name behind a shape number -/
def decode (names : List Nat) (c : Nat) : Nat := names.getD (c / 4) 0

/-- the names of all numbers handed out for a node -/
def namesOf (n : Node) : List Nat := extFields n.fields ([], 0)

structure Inv (st : WS) (names : List Nat) : Prop where
  wf : WF st.1
  len : names.length = st.2
  dec : ∀ s v, SlotMap.get st.1 s = some v → v % 4 = 0 ∧ names[v / 4]? = some s

theorem Inv.mono {st : WS} {names : List Nat} (h : Inv st names) (ext : List Nat) (c : Nat)
    (hc : (names ++ ext).length = c) : Inv (st.1, c) (names ++ ext) where
  wf := h.wf
  len := hc
  dec := fun s v hg => by
    obtain ⟨h1, h2⟩ := h.dec s v hg
    refine ⟨h1, ?_⟩
    have hlt : v / 4 < names.length := (List.getElem?_eq_some_iff.mp h2).1
    rw [List.getElem?_append_left hlt]; exact h2

theorem decode_append {names : List Nat} (ext : List Nat) {c : Nat} (h : c < 4 * names.length) :
    decode (names ++ ext) c = decode names c := by
  unfold decode
  rw [List.getD_eq_getElem?_getD, List.getD_eq_getElem?_getD, List.getElem?_append_left (by omega)]

theorem inv_addSlot {st : WS} {names : List Nat} (h : Inv st names) (s : Nat) :
    Inv (addSlot s st).2 (names ++ [s]) ∧ decode (names ++ [s]) (addSlot s st).1 = s ∧
      (addSlot s st).1 < 4 * (addSlot s st).2.2 := by
  simp only [addSlot]
  refine ⟨⟨wf_insert h.wf _ _, by simp [h.len], ?_⟩, ?_, by omega⟩
  · intro t v hg
    rw [get_insert h.wf] at hg
    by_cases hts : t = s
    · simp only [hts, if_true, Option.some.injEq] at hg
      subst hg
      refine ⟨by omega, ?_⟩
      have : 4 * st.2 / 4 = names.length := by rw [h.len]; omega
      rw [this, hts]; simp
    · simp only [hts, if_false] at hg
      obtain ⟨h1, h2⟩ := h.dec t v hg
      refine ⟨h1, ?_⟩
      have hlt : v / 4 < names.length := (List.getElem?_eq_some_iff.mp h2).1
      rw [List.getElem?_append_left hlt]; exact h2
  · unfold decode
    have : 4 * st.2 / 4 = names.length := by rw [h.len]; omega
    rw [this]; simp

theorem inv_onSeeSlot {st : WS} {names : List Nat} (h : Inv st names) (s : Nat) :
    Inv (onSeeSlot s st).2 (names ++ extSee s st) ∧ decode (names ++ extSee s st) (onSeeSlot s st).1 = s ∧
      (onSeeSlot s st).1 < 4 * (onSeeSlot s st).2.2 := by
  unfold onSeeSlot extSee
  cases hg : SlotMap.get st.1 s with
  | some v =>
    simp only [List.append_nil]
    obtain ⟨h1, h2⟩ := h.dec s v hg
    have hlt : v / 4 < names.length := (List.getElem?_eq_some_iff.mp h2).1
    refine ⟨h, ?_, by rw [← h.len]; omega⟩
    unfold decode
    rw [List.getD_eq_getElem?_getD, h2]; rfl
  | none => exact inv_addSlot h s

/-- every occurrence of a processed field is below the counter -/
def OccLt (f : Field) (c : Nat) : Prop := ∀ x ∈ Field.allOcc f, x < 4 * c

theorem rename_congr {ρ ρ' : Nat → Nat} : ∀ (f : Field), (∀ x ∈ Field.allOcc f, ρ x = ρ' x) →
    Field.rename ρ f = Field.rename ρ' f
  | .slot s, h => by simp [Field.rename, h s (by simp [Field.allOcc])]
  | .lit v, _ => rfl
  | .app a, h => by
    simp only [Field.rename]
    congr 2
    apply List.map_congr_left
    intro p hp
    rw [h p.2 (by simp only [Field.allOcc, valuesVec]; exact List.mem_map.mpr ⟨p, hp, rfl⟩)]
  | .bind s f, h => by
    simp only [Field.rename]
    rw [h s (by simp [Field.allOcc]), rename_congr f (fun x hx => h x (by simp [Field.allOcc, hx]))]

theorem counter_mono_onSee (s : Nat) (st : WS) : st.2 ≤ (onSeeSlot s st).2.2 := by
  unfold onSeeSlot; cases SlotMap.get st.1 s <;> simp [addSlot]

theorem inv_wsValues : ∀ (l : List (Nat × Nat)) {st : WS} {names : List Nat}, Inv st names →
    Inv (wsValues l st).2 (names ++ extValues l st) ∧
      (wsValues l st).1.map (fun p => (p.1, decode (names ++ extValues l st) p.2)) = l ∧
      (∀ p ∈ (wsValues l st).1, p.2 < 4 * (wsValues l st).2.2) ∧ st.2 ≤ (wsValues l st).2.2
  | [], st, names, h => by simp [wsValues, extValues, h]
  | (k, v) :: t, st, names, h => by
    simp only [wsValues, extValues]
    obtain ⟨i1, d1, l1⟩ := inv_onSeeSlot h v
    obtain ⟨i2, d2, l2, m2⟩ := inv_wsValues t i1
    rw [List.append_assoc] at i2 d2
    refine ⟨i2, ?_, ?_, Nat.le_trans (counter_mono_onSee v st) m2⟩
    · simp only [List.map_cons, d2]
      congr 2
      rw [← List.append_assoc, decode_append _ (by rw [i1.len]; exact l1), d1]
    · intro p hp
      simp only [List.mem_cons] at hp
      rcases hp with hp | hp
      · subst hp; simp only; omega
      · exact l2 p hp

/-- **a field is recovered from its shape by decoding the numbers** -/
theorem inv_weakShape : ∀ (f : Field) {st : WS} {names : List Nat}, Inv st names →
    Inv (Field.weakShape f st).2 (names ++ extField f st) ∧
      Field.rename (decode (names ++ extField f st)) (Field.weakShape f st).1 = f ∧
      OccLt (Field.weakShape f st).1 (Field.weakShape f st).2.2 ∧ st.2 ≤ (Field.weakShape f st).2.2
  | .slot s, st, names, h => by
    simp only [Field.weakShape, extField]
    obtain ⟨i1, d1, l1⟩ := inv_onSeeSlot h s
    refine ⟨i1, by simp [Field.rename, d1], ?_, counter_mono_onSee s st⟩
    intro x hx; simp [Field.allOcc] at hx; subst hx; exact l1
  | .lit v, st, names, h => by
    simp only [Field.weakShape, extField, List.append_nil]
    exact ⟨h, rfl, by intro x hx; simp [Field.allOcc] at hx, Nat.le_refl _⟩
  | .app a, st, names, h => by
    simp only [Field.weakShape, extField]
    obtain ⟨i1, d1, l1, m1⟩ := inv_wsValues a.m h
    refine ⟨i1, ?_, ?_, m1⟩
    · simp only [Field.rename]; rw [d1]
    · intro x hx
      simp only [Field.allOcc, valuesVec, List.mem_map] at hx
      obtain ⟨p, hp, rfl⟩ := hx
      exact l1 p hp
  | .bind s f, st, names, h => by
    simp only [Field.weakShape, extField]
    obtain ⟨i1, d1, l1⟩ := inv_addSlot h s
    obtain ⟨i2, d2, l2, m2⟩ := inv_weakShape f i1
    have happ : names ++ [s] ++ extField f (addSlot s st).2 = names ++ s :: extField f (addSlot s st).2 := by simp
    rw [happ] at i2 d2
    have hcnt : st.2 ≤ (Field.weakShape f (addSlot s st).2).2.2 := by
      have : (addSlot s st).2.2 = st.2 + 1 := rfl
      omega
    refine ⟨?_, ?_, ?_, hcnt⟩
    · -- the restored state
      cases hsh : SlotMap.get st.1 s with
      | some old =>
        simp only
        refine ⟨wf_insert i2.wf _ _, i2.len, ?_⟩
        intro t v hg
        rw [get_insert i2.wf] at hg
        by_cases hts : t = s
        · simp only [hts, if_true, Option.some.injEq] at hg
          subst hg
          obtain ⟨h1, h2⟩ := h.dec s old hsh
          refine ⟨h1, ?_⟩
          have hlt : old / 4 < names.length := (List.getElem?_eq_some_iff.mp h2).1
          rw [List.getElem?_append_left hlt, hts]; exact h2
        · simp only [hts, if_false] at hg
          exact i2.dec t v hg
      | none =>
        simp only
        refine ⟨wf_remove i2.wf _, i2.len, ?_⟩
        intro t v hg
        rw [get_remove i2.wf] at hg
        by_cases hts : t = s
        · simp [hts] at hg
        · simp only [hts, if_false] at hg
          exact i2.dec t v hg
    · simp only [Field.rename, d2]
      congr 1
      have : (addSlot s st).1 < 4 * (names ++ [s]).length := by rw [i1.len]; exact l1
      rw [← happ, decode_append _ this]; exact d1
    · intro x hx
      simp only [Field.allOcc, List.mem_cons] at hx
      rcases hx with hx | hx
      · subst hx
        have : (addSlot s st).2.2 = st.2 + 1 := rfl
        have h4 : (addSlot s st).1 = 4 * st.2 := rfl
        omega
      · exact l2 x hx

theorem inv_weakShapeFields : ∀ (fs : List Field) {st : WS} {names : List Nat}, Inv st names →
    Inv (Node.weakShapeFields fs st).2 (names ++ extFields fs st) ∧
      (Node.weakShapeFields fs st).1.map (Field.rename (decode (names ++ extFields fs st))) = fs
  | [], st, names, h => by simp [Node.weakShapeFields, extFields, h]
  | f :: t, st, names, h => by
    simp only [Node.weakShapeFields, extFields]
    obtain ⟨i1, d1, l1, _⟩ := inv_weakShape f h
    obtain ⟨i2, d2⟩ := inv_weakShapeFields t i1
    rw [List.append_assoc] at i2 d2
    refine ⟨i2, ?_⟩
    simp only [List.map_cons, d2]
    congr 1
    have hc : Field.rename (decode (names ++ (extField f st ++ extFields t (Field.weakShape f st).2))) (Field.weakShape f st).1 =
        Field.rename (decode (names ++ extField f st)) (Field.weakShape f st).1 := by
      apply rename_congr
      intro x hx
      rw [← List.append_assoc]
      exact decode_append _ (by rw [i1.len]; exact l1 x hx)
    rw [hc]; exact d1

theorem inv_init : Inv (([], 0) : WS) [] :=
  ⟨wf_nil, rfl, fun _ _ h => by simp [SlotMap.get] at h⟩

/-- **every node is its shape with the numbers decoded** -/
theorem node_decode (n : Node) : Node.rename (decode (namesOf n)) (Node.weakShape n).1 = n := by
  obtain ⟨_, d⟩ := inv_weakShapeFields n.fields inv_init
  simp only [List.nil_append] at d
  simp only [Node.rename, Node.weakShape, namesOf]
  rw [d]

theorem allOcc_rename (ρ : Nat → Nat) : ∀ (f : Field), Field.allOcc (Field.rename ρ f) = (Field.allOcc f).map ρ
  | .slot s => rfl
  | .lit v => rfl
  | .app a => by simp [Field.rename, Field.allOcc, valuesVec, List.map_map, Function.comp_def]
  | .bind s f => by simp [Field.rename, Field.allOcc, allOcc_rename ρ f]

theorem rename_rename (ρ σ : Nat → Nat) : ∀ (f : Field), Field.rename σ (Field.rename ρ f) = Field.rename (fun x => σ (ρ x)) f
  | .slot s => rfl
  | .lit v => rfl
  | .app a => by simp [Field.rename, List.map_map, Function.comp_def]
  | .bind s f => by simp [Field.rename, rename_rename ρ σ f]

end SV.ShapeDecode
