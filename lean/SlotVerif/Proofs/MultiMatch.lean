import SlotVerif.Model.MultiMatch
import SlotVerif.Proofs.EMatch
/-!
An invariant of the modelled multi-pattern matcher (`Model/MultiMatch.lean`, tied to
`/repo/src/rewrite/multipat.rs` by the `mmatch` correspondence): bindings are never lost, and after
an equation `?v == node(?c1 .. ?ck)` has been processed, `v` and every `ci` are bound — so every
substitution `multi_ematch` returns binds every variable of the multi-pattern.
-/
namespace SV.MultiMatch
open SV SV.SlotMap SV.EMatch

def keys (st : MS) : List String := st.subst.map (·.1)

theorem keys_updateState (st : MS) : keys (updateState st) = keys st := by
  unfold keys updateState
  simp [List.map_map, Function.comp_def]

theorem keys_unionSlot {x y : Nat} {st st' : MS} (h : unionSlot x y st = some st') : keys st' = keys st := by
  unfold unionSlot at h
  simp only at h
  split at h
  · simp only [Option.some.injEq] at h; rw [← h]
  · split at h
    · simp at h
    · have fin : ∀ (u : List (Nat × Nat)), some (updateState { st with uf := u }) = some st' → keys st' = keys st := by
        intro u hu
        simp only [Option.some.injEq] at hu
        rw [← hu, keys_updateState]; rfl
      split at h
      · split at h
        · simp at h
        · exact fin _ h
      · first
          | exact fin _ h
          | (split at h
             · simp at h
             · exact fin _ h)

theorem keys_matchesRaw {n1 n2 : Node} {st st' : MS} (h : matchesRaw n1 n2 st = some st') : keys st' = keys st := by
  unfold matchesRaw at h
  simp only at h
  split at h
  · simp at h
  · -- the fold only goes through `unionSlot` and additions to the set of pattern slots
    have key : ∀ (l : List (Nat × Nat)) (acc : Option MS) (st0 : MS), (∀ a, acc = some a → keys a = keys st0) →
        ∀ r, l.foldl (fun (acc : Option MS) p => acc.bind fun st =>
          let st1 := if st.pslots.contains p.1 then st else { st with pslots := st.pslots ++ [p.1] }
          unionSlot p.1 p.2 st1) acc = some r → keys r = keys st0 := by
      intro l
      induction l with
      | nil => intro acc st0 ha r hr; exact ha r hr
      | cons p t ih =>
        intro acc st0 ha r hr
        simp only [List.foldl_cons] at hr
        apply ih _ st0 _ r hr
        intro a hacc
        cases acc with
        | none => simp at hacc
        | some s0 =>
          simp only [Option.bind_some] at hacc
          have h0 := ha s0 rfl
          have := keys_unionSlot hacc
          rw [this, ← h0]
          split <;> rfl
    exact key _ (some st) st (by intro a ha; simp only [Option.some.injEq] at ha; rw [← ha]) st' h

theorem keys_unify (s : Snap) : ∀ (f : Nat) (x y : AppId) (st : MS), ∀ st' ∈ unify s f x y st, keys st' = keys st
  | 0, _, _, _, st', h => by simp [unify] at h
  | f + 1, x, y, st, st', h => by
    simp only [unify] at h
    split at h
    · simp at h
    · split at h
      · simp at h
      · split at h
        · split at h
          · simp only [List.mem_singleton] at h; rw [h]
          · simp at h
        · simp only [List.mem_flatMap] at h
          obtain ⟨yy, _, hm⟩ := h
          split at hm
          · rename_i st1 hu
            rw [keys_unify s f _ _ st1 st' hm, keys_unionSlot hu]
          · simp at hm

theorem keys_substSet (l : List (String × AppId)) (v : String) (a : AppId) :
    v ∈ (substSet l v a).map (·.1) ∧ ∀ w ∈ l.map (·.1), w ∈ (substSet l v a).map (·.1) := by
  unfold substSet
  split
  · rename_i hany
    constructor
    · simp only [List.any_eq_true] at hany
      obtain ⟨b, hb, hbv⟩ := hany
      simp only [List.map_map, List.mem_map, Function.comp]
      refine ⟨b, hb, ?_⟩
      simp only [hbv, if_true]
    · intro w hw
      simp only [List.map_map, List.mem_map, Function.comp] at hw ⊢
      obtain ⟨b, hb, rfl⟩ := hw
      refine ⟨b, hb, ?_⟩
      by_cases hbv : (b.1 == v) = true
      · simp only [hbv, if_true]; exact (by simpa using hbv : b.1 = v).symm
      · simp [hbv]
  · constructor
    · simp
    · intro w hw; simp only [List.map_append, List.mem_append]; exact Or.inl hw

theorem keys_extendSubst (s : Snap) (pv : String) (x : AppId) (st : MS) :
    ∀ st' ∈ extendSubst s pv x st, pv ∈ keys st' ∧ ∀ w ∈ keys st, w ∈ keys st' := by
  intro st' h
  unfold extendSubst at h
  cases hg : substGet st pv with
  | some y =>
    rw [hg] at h
    simp only at h
    have hk := keys_unify s _ x y st st' h
    rw [hk]
    refine ⟨?_, fun _ hw => hw⟩
    unfold substGet at hg
    cases hf : st.subst.find? (·.1 == pv) with
    | none => rw [hf] at hg; simp at hg
    | some b =>
      have h1 := List.find?_some hf
      have h2 := List.mem_of_find?_eq_some hf
      have : b.1 = pv := by simpa using h1
      unfold keys; rw [← this]; exact List.mem_map.mpr ⟨b, h2, rfl⟩
  | none =>
    rw [hg] at h
    simp only [List.mem_singleton] at h
    subst h
    exact keys_substSet st.subst pv _

theorem keys_stepClass (s : Snap) (pv : String) (st : MS) (k : Nat) :
    ∀ st' ∈ (stepClass s pv st k).1, pv ∈ keys st' ∧ ∀ w ∈ keys st, w ∈ keys st' := by
  intro st' h
  unfold stepClass at h
  split at h
  · rename_i hb
    simp only [List.mem_singleton] at h
    rw [h]
    refine ⟨?_, fun _ hw => hw⟩
    unfold substGet at hb
    cases hf : List.find? (fun x => x.1 == pv) st.subst with
    | none => rw [hf] at hb; simp at hb
    | some b =>
      have h1 := List.find?_some hf
      have h2 := List.mem_of_find?_eq_some hf
      have : b.1 = pv := by simpa using h1
      unfold keys; rw [← this]; exact List.mem_map.mpr ⟨b, h2, rfl⟩
  · -- every state pushed by the fold is `st` with `pv` bound
    have key : ∀ (ids : List Nat) (acc : List MS × Nat), (∀ a ∈ acc.1, pv ∈ keys a ∧ ∀ w ∈ keys st, w ∈ keys a) →
        ∀ a ∈ (ids.foldl (fun (acc : List MS × Nat) i =>
          let slots := match s.cls i with | some c => c.slots | none => []
          let m : SlotMap := (slots.zipIdx).foldl (fun m p => insert m p.1 (freshCode (acc.2 + p.2))) []
          (acc.1 ++ [{ st with subst := substSet st.subst pv { id := i, m := m } }], acc.2 + slots.length)) acc).1,
          pv ∈ keys a ∧ ∀ w ∈ keys st, w ∈ keys a := by
      intro ids
      induction ids with
      | nil => intro acc ha; exact ha
      | cons i t ih =>
        intro acc ha
        simp only [List.foldl_cons]
        apply ih
        intro a hm
        simp only [List.mem_append, List.mem_singleton] at hm
        rcases hm with hm | hm
        · exact ha a hm
        · subst hm; exact keys_substSet st.subst pv _
    exact key s.ids ([], k) (by intro a ha; simp at ha) st' h

theorem keys_kids (s : Snap) : ∀ (cgs : List (String × AppId)) (accum : List MS) (st0 : MS),
    (∀ a ∈ accum, ∀ w ∈ keys st0, w ∈ keys a) →
    ∀ st' ∈ cgs.foldl (fun (accum : List MS) cg => accum.flatMap fun stx => extendSubst s cg.1 cg.2 stx) accum,
      (∀ cg ∈ cgs, cg.1 ∈ keys st') ∧ ∀ w ∈ keys st0, w ∈ keys st'
  | [], accum, st0, ha, st', h => ⟨by intro cg hcg; simp at hcg, ha st' h⟩
  | cg :: rest, accum, st0, ha, st', h => by
    simp only [List.foldl_cons] at h
    -- after the first child: every state binds `cg.1` and keeps the keys of `st0`
    have hstep : ∀ a ∈ accum.flatMap (fun stx => extendSubst s cg.1 cg.2 stx),
        ∀ w ∈ cg.1 :: keys st0, w ∈ keys a := by
      intro a hm w hw
      simp only [List.mem_flatMap] at hm
      obtain ⟨stx, hstx, hin⟩ := hm
      obtain ⟨h1, h2⟩ := keys_extendSubst s cg.1 cg.2 stx a hin
      simp only [List.mem_cons] at hw
      rcases hw with hw | hw
      · rw [hw]; exact h1
      · exact h2 w (ha stx hstx w hw)
    -- continue with a start state whose keys are `cg.1 :: keys st0` (only its key list matters)
    have := keys_kids s rest _ { st0 with subst := (cg.1, cg.2) :: st0.subst } (by
      intro a hm w hw
      have : w ∈ cg.1 :: keys st0 := by simpa [keys] using hw
      exact hstep a hm w this) st' h
    obtain ⟨h1, h2⟩ := this
    refine ⟨?_, fun w hw => h2 w (by simp [keys]; exact Or.inr (by simpa [keys] using hw))⟩
    intro c hc
    simp only [List.mem_cons] at hc
    rcases hc with hc | hc
    · subst hc; exact h2 _ (by simp [keys])
    · exact h1 c hc

/-- after an equation has been processed, its variables are bound and nothing bound before is lost -/
theorem keys_stepNode (s : Snap) (pv : String) (node : Node) (children : List String) (st : MS) (k : Nat)
    (hwf : children.length ≤ (Node.appOcc node).length) :
    ∀ st' ∈ (stepNode s pv node children st k).1, (∀ c ∈ children, c ∈ keys st') ∧ ∀ w ∈ keys st, w ∈ keys st' := by
  intro st' h
  unfold stepNode at h
  split at h
  · simp at h
  · rename_i gid _
    simp only [List.mem_flatMap] at h
    obtain ⟨n, _, hn⟩ := h
    split at hn
    · simp at hn
    · rename_i st2 hm
      have hk2 : keys st2 = keys st := by
        rw [keys_matchesRaw hm]; rfl
      -- the matched node has as many children as the pattern node
      have harity : children.length ≤ (Node.appOcc n).length := by
        unfold matchesRaw at hm
        simp only at hm
        split at hm
        · simp at hm
        · rename_i hsh
          have hsh' : (Node.weakShape (nullify node)).1 = (Node.weakShape (nullify n)).1 := by simpa using hsh
          have h1 := appOcc_weakShape (nullify node)
          rw [hsh', appOcc_weakShape, appOcc_nullify, appOcc_nullify] at h1
          omega
      have := keys_kids s (children.zip (Node.appOcc n)) [st2] st2 (by intro a ha; simp at ha; subst ha; exact fun _ h => h) st' hn
      obtain ⟨h1, h2⟩ := this
      refine ⟨?_, fun w hw => h2 w (by rw [hk2]; exact hw)⟩
      intro c hc
      -- `c` is the first component of a pair of the zip
      obtain ⟨i, hi, rfl⟩ := List.getElem_of_mem hc
      have hi2 : i < (Node.appOcc n).length := by omega
      have hz : (children[i], (Node.appOcc n)[i]) ∈ children.zip (Node.appOcc n) := by
        have : i < (children.zip (Node.appOcc n)).length := by simp [List.length_zip]; omega
        have hget : (children.zip (Node.appOcc n))[i] = (children[i], (Node.appOcc n)[i]) := List.getElem_zip
        rw [← hget]; exact List.getElem_mem this
      exact h1 _ hz

/-- one equation: every resulting state binds the equation's variables and keeps what was bound -/
theorem keys_equation (s : Snap) (pat : String × Node × List String) (hwf : pat.2.2.length ≤ (Node.appOcc pat.2.1).length) :
    ∀ (sts : List MS) (a : List MS × Nat) (P : String → Prop),
      (∀ st ∈ sts, ∀ w, P w → w ∈ keys st) → (∀ st ∈ a.1, (∀ w, P w → w ∈ keys st) ∧ pat.1 ∈ keys st ∧ ∀ c ∈ pat.2.2, c ∈ keys st) →
      ∀ st' ∈ (sts.foldl (fun (a : List MS × Nat) st =>
        let (cls, k1) := stepClass s pat.1 st a.2
        cls.foldl (fun (b : List MS × Nat) st1 =>
          let (r, k2) := stepNode s pat.1 pat.2.1 pat.2.2 st1 b.2
          (b.1 ++ r, k2)) (a.1, k1)) a).1,
        (∀ w, P w → w ∈ keys st') ∧ pat.1 ∈ keys st' ∧ ∀ c ∈ pat.2.2, c ∈ keys st' := by
  intro sts
  induction sts with
  | nil => intro a P _ ha st' h; exact ha st' h
  | cons st rest ih =>
    intro a P hs ha st' h
    simp only [List.foldl_cons] at h
    apply ih _ P (fun x hx => hs x (by simp [hx])) _ st' h
    -- the inner fold over the class choices
    have hcls := keys_stepClass s pat.1 st a.2
    generalize stepClass s pat.1 st a.2 = r at hcls
    obtain ⟨cls, k1⟩ := r
    simp only at hcls ⊢
    have key : ∀ (l : List MS) (b : List MS × Nat), (∀ x ∈ l, pat.1 ∈ keys x ∧ ∀ w ∈ keys st, w ∈ keys x) →
        (∀ x ∈ b.1, (∀ w, P w → w ∈ keys x) ∧ pat.1 ∈ keys x ∧ ∀ c ∈ pat.2.2, c ∈ keys x) →
        ∀ x ∈ (l.foldl (fun (b : List MS × Nat) st1 =>
          let (r, k2) := stepNode s pat.1 pat.2.1 pat.2.2 st1 b.2
          (b.1 ++ r, k2)) b).1, (∀ w, P w → w ∈ keys x) ∧ pat.1 ∈ keys x ∧ ∀ c ∈ pat.2.2, c ∈ keys x := by
      intro l
      induction l with
      | nil => intro b _ hb x hx; exact hb x hx
      | cons st1 t iht =>
        intro b hl hb x hx
        simp only [List.foldl_cons] at hx
        apply iht _ (fun y hy => hl y (by simp [hy])) _ x hx
        intro y hy
        simp only [List.mem_append] at hy
        rcases hy with hy | hy
        · exact hb y hy
        · obtain ⟨h1, h2⟩ := keys_stepNode s pat.1 pat.2.1 pat.2.2 st1 b.2 hwf y hy
          obtain ⟨g1, g2⟩ := hl st1 (by simp)
          exact ⟨fun w hw => h2 w (g2 w (hs st (by simp) w hw)), h2 _ g1, h1⟩
    exact key cls (a.1, k1) hcls ha

/-- **every substitution `multi_ematch` returns binds every variable of the multi-pattern** -/
theorem multi_binds (s : Snap) : ∀ (pats : List (String × Node × List String)),
    (∀ pat ∈ pats, pat.2.2.length ≤ (Node.appOcc pat.2.1).length) → ∀ (acc : List MS × Nat) (P : String → Prop),
    (∀ st ∈ acc.1, ∀ w, P w → w ∈ keys st) →
    ∀ st' ∈ (pats.foldl (fun (acc : List MS × Nat) pat =>
      acc.1.foldl (fun (a : List MS × Nat) st =>
        let (cls, k1) := stepClass s pat.1 st a.2
        cls.foldl (fun (b : List MS × Nat) st1 =>
          let (r, k2) := stepNode s pat.1 pat.2.1 pat.2.2 st1 b.2
          (b.1 ++ r, k2)) (a.1, k1)) ([], acc.2)) acc).1,
      (∀ w, P w → w ∈ keys st') ∧ ∀ pat ∈ pats, pat.1 ∈ keys st' ∧ ∀ c ∈ pat.2.2, c ∈ keys st'
  | [], _, acc, P, ha, st', h => ⟨ha st' h, by intro pat hp; simp at hp⟩
  | pat :: rest, hwf, acc, P, ha, st', h => by
    simp only [List.foldl_cons] at h
    -- after this equation every state satisfies P' := P ∨ "is a variable of this equation"
    let P' : String → Prop := fun w => P w ∨ w = pat.1 ∨ w ∈ pat.2.2
    have hstep := keys_equation s pat (hwf pat (by simp)) acc.1 ([], acc.2) P ha (by intro x hx; simp at hx)
    have hres := multi_binds s rest (fun q hq => hwf q (by simp [hq])) _ P' (by
      intro x hx w hw
      obtain ⟨h1, h2, h3⟩ := hstep x hx
      rcases hw with hw | hw | hw
      · exact h1 w hw
      · rw [hw]; exact h2
      · exact h3 w hw) st' h
    obtain ⟨g1, g2⟩ := hres
    refine ⟨fun w hw => g1 w (Or.inl hw), ?_⟩
    intro q hq
    simp only [List.mem_cons] at hq
    rcases hq with hq | hq
    · subst hq
      exact ⟨g1 _ (Or.inr (Or.inl rfl)), fun c hc => g1 c (Or.inr (Or.inr hc))⟩
    · exact g2 q hq

theorem multiEmatch_binds (s : Snap) (pats : List (String × Node × List String))
    (hwf : ∀ pat ∈ pats, pat.2.2.length ≤ (Node.appOcc pat.2.1).length) (k : Nat) :
    ∀ σ ∈ (multiEmatch s pats k).1, ∀ pat ∈ pats, pat.1 ∈ σ.map (·.1) ∧ ∀ c ∈ pat.2.2, c ∈ σ.map (·.1) := by
  intro σ hσ
  unfold multiEmatch at hσ
  simp only [List.mem_map] at hσ
  obtain ⟨st, hst, rfl⟩ := hσ
  have := (multi_binds s pats hwf ([{}], k) (fun _ => False) (by intro st hst w hw; exact absurd hw id) st hst).2
  intro pat hp
  have hk : (st.subst.map fun b => (b.1, appFind st b.2)).map (·.1) = keys st := by
    unfold keys; simp [List.map_map, Function.comp_def]
  rw [hk]
  exact this pat hp

end SV.MultiMatch
