import SlotVerif.Proofs.Group
/-!
Restricting a class's symmetry group to the slots that survive `shrink_slots`: the group generated
by the restricted generators is exactly the set of restrictions of the elements of the old group
(for generators that preserve the retained set, which is what `shrink_slots` keeps).
-/
namespace SV.Grp
open SV SV.SlotMap

theorem get_filter_key (P : Nat → Bool) : ∀ (m : SlotMap) (k : Nat),
    SlotMap.get (m.filter fun e => P e.1) k = if P k then SlotMap.get m k else none
  | [], k => by simp [SlotMap.get]
  | (a, b) :: t, k => by
    by_cases hpa : P a = true
    · simp only [List.filter_cons, hpa, if_true, SlotMap.get]
      by_cases hk : k = a
      · simp [hk, hpa]
      · simp only [hk, if_false]; exact get_filter_key P t k
    · have hpa' : P a = false := by simpa using hpa
      simp only [List.filter_cons, hpa', Bool.false_eq_true, if_false, SlotMap.get]
      by_cases hk : k = a
      · subst hk
        rw [get_filter_key P t k]; simp [hpa']
      · simp only [hk, if_false]; exact get_filter_key P t k

theorem wf_filter (P : Nat × Nat → Bool) {m : SlotMap} (h : WF m) : WF (m.filter P) := by
  unfold WF at *
  exact h.sublist (List.filter_sublist)

def Pres (cap : List Nat) (p : Perm) : Prop := ∀ x y, get p x = some y → (x ∈ cap ↔ y ∈ cap)

theorem get_restrict (cap : List Nat) (p : Perm) (x : Nat) :
    get (restrict cap p) x = if x ∈ cap then get p x else none := by
  unfold restrict
  rw [get_filter_key (fun k => cap.contains k)]
  by_cases h : x ∈ cap <;> simp [h]

theorem isPerm_restrict {Ω cap : List Nat} {p : Perm} (hp : IsPerm Ω p) (hsub : ∀ x ∈ cap, x ∈ Ω) (hpr : Pres cap p) :
    IsPerm cap (restrict cap p) where
  wf := wf_filter _ hp.wf
  tot := fun x hx => by
    obtain ⟨y, _, hg⟩ := hp.tot x (hsub x hx)
    exact ⟨y, (hpr x y hg).mp hx, by rw [get_restrict]; simp [hx, hg]⟩
  dom := fun x y h => by
    rw [get_restrict] at h
    by_cases hx : x ∈ cap
    · exact hx
    · simp [hx] at h
  inj := fun x x' y h h' => by
    rw [get_restrict] at h h'
    by_cases hx : x ∈ cap <;> by_cases hx' : x' ∈ cap <;> simp [hx, hx'] at h h'
    exact hp.inj x x' y h h'
  surj := fun y hy => by
    obtain ⟨x, hx⟩ := hp.surj y (hsub y hy)
    exact ⟨x, by rw [get_restrict]; simp [(hpr x y hx).mpr hy, hx]⟩

theorem pres_identity (Ω cap : List Nat) : Pres cap (identity Ω) := by
  intro x y h
  rw [get_identity] at h
  by_cases hx : x ∈ Ω
  · simp [hx] at h; rw [h]
  · simp [hx] at h

theorem pres_comp {Ω cap : List Nat} {a b : Perm} (ha : IsPerm Ω a) (pa : Pres cap a) (pb : Pres cap b) : Pres cap (comp a b) := by
  intro x z h
  rw [get_comp ha.wf] at h
  cases hy : get a x with
  | none => rw [hy] at h; simp at h
  | some y =>
    rw [hy] at h
    simp only [Option.bind_some] at h
    exact (pa x y hy).trans (pb y z h)

theorem pres_inverse {Ω cap : List Nat} {a : Perm} (ha : IsPerm Ω a) (pa : Pres cap a) : Pres cap (inverse a) := by
  intro y x h
  have := (get_inv ha x y).mp h
  exact (pa x y this).symm

theorem Gen.pres {Ω cap : List Nat} {gens : List Perm} (hv : Valid Ω gens) (hg : ∀ g ∈ gens, Pres cap g) {p : Perm}
    (h : Gen Ω gens p) : Pres cap p := by
  induction h with
  | one => exact pres_identity Ω cap
  | gen hm => exact hg _ hm
  | mul ha hb iha ihb => exact pres_comp (ha.isPerm hv) iha ihb
  | inv ha ih => exact pres_inverse (ha.isPerm hv) ih

theorem restrict_identity {Ω cap : List Nat} (hsub : ∀ x ∈ cap, x ∈ Ω) : restrict cap (identity Ω) = identity cap := by
  apply IsPerm.ext (isPerm_restrict (isPerm_identity Ω) hsub (pres_identity Ω cap)) (isPerm_identity cap)
  intro x hx
  rw [get_restrict, get_identity, get_identity]
  simp [hx, hsub x hx]

theorem restrict_comp {Ω cap : List Nat} {a b : Perm} (ha : IsPerm Ω a) (hb : IsPerm Ω b) (hsub : ∀ x ∈ cap, x ∈ Ω)
    (pa : Pres cap a) (pb : Pres cap b) : restrict cap (comp a b) = comp (restrict cap a) (restrict cap b) := by
  have ra := isPerm_restrict ha hsub pa
  have rb := isPerm_restrict hb hsub pb
  apply IsPerm.ext (isPerm_restrict (isPerm_comp ha hb) hsub (pres_comp ha pa pb)) (isPerm_comp ra rb)
  intro x hx
  rw [get_restrict, get_comp ha.wf, get_comp ra.wf, get_restrict]
  simp only [hx, if_true]
  cases hy : get a x with
  | none => rfl
  | some y =>
    simp only [Option.bind_some]
    rw [get_restrict]
    simp [(pa x y hy).mp hx]

theorem restrict_inverse {Ω cap : List Nat} {a : Perm} (ha : IsPerm Ω a) (hsub : ∀ x ∈ cap, x ∈ Ω) (pa : Pres cap a) :
    restrict cap (inverse a) = inverse (restrict cap a) := by
  have ra := isPerm_restrict ha hsub pa
  apply IsPerm.ext (isPerm_restrict (isPerm_inverse ha) hsub (pres_inverse ha pa)) (isPerm_inverse ra)
  intro y hy
  rw [get_restrict]
  simp only [hy, if_true]
  -- both sides are `some x` for the `x` with `a x = y`
  obtain ⟨x, hx⟩ := ha.surj y (hsub y hy)
  have h1 : get (inverse a) y = some x := (get_inv ha x y).mpr hx
  have hxc : x ∈ cap := (pa x y hx).mpr hy
  have h2 : get (inverse (restrict cap a)) y = some x :=
    (get_inv ra x y).mpr (by rw [get_restrict]; simp [hxc, hx])
  rw [h1, h2]

/-- **the restricted generators generate exactly the restrictions of the old group** -/
theorem gen_restrict_iff {Ω cap : List Nat} {gens : List Perm} (hv : Valid Ω gens) (hsub : ∀ x ∈ cap, x ∈ Ω)
    (hg : ∀ g ∈ gens, Pres cap g) (q : Perm) :
    Gen cap (gens.map (restrict cap)) q ↔ ∃ p, Gen Ω gens p ∧ q = restrict cap p := by
  constructor
  · intro h
    induction h with
    | one => exact ⟨identity Ω, .one, (restrict_identity hsub).symm⟩
    | gen hm =>
      obtain ⟨g, hgm, rfl⟩ := List.mem_map.mp hm
      exact ⟨g, .gen hgm, rfl⟩
    | mul _ _ iha ihb =>
      obtain ⟨pa, ga, rfl⟩ := iha
      obtain ⟨pb, gb, rfl⟩ := ihb
      exact ⟨comp pa pb, .mul ga gb,
        (restrict_comp (ga.isPerm hv) (gb.isPerm hv) hsub (ga.pres hv hg) (gb.pres hv hg)).symm⟩
    | inv _ ih =>
      obtain ⟨pa, ga, rfl⟩ := ih
      exact ⟨inverse pa, .inv ga, (restrict_inverse (ga.isPerm hv) hsub (ga.pres hv hg)).symm⟩
  · rintro ⟨p, hp, rfl⟩
    induction hp with
    | one => rw [restrict_identity hsub]; exact .one
    | gen hm => exact .gen (List.mem_map.mpr ⟨_, hm, rfl⟩)
    | mul ga gb iha ihb =>
      rw [restrict_comp (ga.isPerm hv) (gb.isPerm hv) hsub (ga.pres hv hg) (gb.pres hv hg)]
      exact .mul iha ihb
    | inv ga ih =>
      rw [restrict_inverse (ga.isPerm hv) hsub (ga.pres hv hg)]
      exact .inv ih

theorem pres_of_preservesCap {cap : List Nat} {p : Perm} (hw : WF p) (h : preservesCap cap p = true) : Pres cap p := by
  intro x y hg
  unfold preservesCap at h
  have hm := (get_eq_some_iff hw x y).mp hg
  have := List.all_eq_true.mp h (x, y) hm
  simp only [beq_iff_eq] at this
  constructor
  · intro hx; have : cap.contains y = true := by rw [← this]; simpa using hx
    simpa using this
  · intro hy; have : cap.contains x = true := by rw [this]; simpa using hy
    simpa using this

theorem valid_restrict {Ω cap : List Nat} {gens : List Perm} (hv : Valid Ω gens) (hsub : ∀ x ∈ cap, x ∈ Ω)
    (hg : ∀ g ∈ gens, Pres cap g) : Valid cap (gens.map (restrict cap)) := by
  intro g hm
  obtain ⟨g0, h0, rfl⟩ := List.mem_map.mp hm
  exact isPerm_restrict (hv g0 h0) hsub (hg g0 h0)

end SV.Grp
