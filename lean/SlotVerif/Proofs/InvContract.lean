import SlotVerif.Proofs.EqEquiv
/-!
What the snapshot invariant `checkInv` gives the theorems about `eq` as their hypotheses: the stored generators of a class are
permutations of its slots (`gensOK_valid`), and the leader entry of a live class is the identity on its slots
(`leader_entry_identity`).  So `eq_is_equivalence` applies to every live class of every state that passes `checkInv`.
-/
namespace SV.Snap
open SV SV.SlotMap SV.Grp

theorem mem_of_contains {l : List Nat} {x : Nat} (h : l.contains x = true) : x ∈ l := by simpa using h

/-- the generators a state stores for a class are permutations of the class slots -/
theorem gensOK_valid {c : SClass} (h : gensOK c = true) : Valid c.slots c.gens := by
  intro g hg
  unfold gensOK at h
  simp only [List.all_eq_true, Bool.and_eq_true, beq_iff_eq] at h
  obtain ⟨⟨⟨hwf, hbij⟩, hkeys⟩, hsame⟩ := h g hg
  have hw : WF g := wf_of_wfb g hwf
  have hinj : SlotMap.Inj g := (isBijection_iff g).mp hbij
  unfold sameSet at hsame
  simp only [Bool.and_eq_true, List.all_eq_true] at hsame
  apply IsPerm.of_bounded hw
  · intro q hq
    rw [← hkeys]; exact List.mem_map.mpr ⟨q, hq, rfl⟩
  · intro x hx
    rw [← hkeys] at hx
    obtain ⟨q, hq, rfl⟩ := List.mem_map.mp hx
    refine ⟨q.2, ?_, (get_eq_some_iff hw q.1 q.2).mpr hq⟩
    exact mem_of_contains (hsame.1 q.2 (List.mem_map.mpr ⟨q, hq, rfl⟩))
  · intro q hq q' hq' he
    -- values are pairwise distinct
    unfold SlotMap.Inj valuesVec at hinj
    have := List.inj_on_of_nodup_map hinj hq hq' he
    rw [this]
  · intro y hy
    have := mem_of_contains (hsame.2 y hy)
    obtain ⟨q, hq, rfl⟩ := List.mem_map.mp this
    exact ⟨q, hq, rfl⟩

/-- the leader entry of a live class is the identity on the class slots -/
theorem leader_entry_identity {s : Snap} {c : SClass} (hok : ufOK s = true) (hl : leaderOK s c = true)
    (ha : isAlive s c.id = true) : s.uf[c.id]? = some ⟨c.id, identity c.slots⟩ := by
  obtain ⟨hw, hlid⟩ := ufOK_sound hok
  unfold leaderOK at hl
  rw [ha] at hl
  simp only [if_true] at hl
  unfold isAlive at ha
  cases he : s.uf[c.id]? with
  | none => rw [he] at hl; simp at hl
  | some e =>
    rw [he] at hl ha
    simp only [beq_iff_eq] at hl ha
    have hwe : WF e.m := hw e (List.mem_of_getElem? he)
    have hpid := hlid c.id e he ha
    have hm : e.m = identity c.slots := by
      apply ext hwe (wf_identity _)
      intro k
      rw [get_identity]
      by_cases hk : k ∈ c.slots
      · simp only [hk, if_true]
        rw [← hl] at hk
        obtain ⟨q, hq, rfl⟩ := List.mem_map.mp hk
        have := hpid q hq
        rw [(get_eq_some_iff hwe q.1 q.2).mpr hq, this]
      · simp only [hk, if_false]
        cases hg : get e.m k with
        | none => rfl
        | some v =>
          exfalso; apply hk; rw [← hl]
          exact List.mem_map.mpr ⟨(k, v), (get_eq_some_iff hwe k v).mp hg, rfl⟩
    cases e; simp_all

end SV.Snap
