import SlotVerif.Proofs.SnapEquiv
import SlotVerif.Proofs.Shape
import SlotVerif.Proofs.ShapeApply
/-!
`lookup` on the snapshot model is equivariant: renaming every slot occurrence of the queried e-node
(free slots, binder names, arguments of its children) with a map injective on those occurrences
renames the returned invocation's arguments the same way (C09 "renaming the term's free slots renames
the result in the same way", C11).  Chain: `find_enode` → group-compatible variants → minimal
variant → weak shape and its bijection → hashcons lookup.
-/
namespace SV.Snap
open SV SV.SlotMap

/-! ### slot-map plumbing, unconditional -/

theorem insert_mapVals (ρ : Nat → Nat) : ∀ (m : SlotMap) (k v : Nat),
    insert (mapVals ρ m) k (ρ v) = mapVals ρ (insert m k v)
  | [], k, v => rfl
  | (a, b) :: t, k, v => by
    simp only [mapVals, List.map_cons, SlotMap.insert]
    by_cases h1 : k < a
    · simp [h1]
    · by_cases h2 : k = a
      · simp [h2]
      · simp only [h1, h2, if_false, List.map_cons]
        congr 1
        exact insert_mapVals ρ t k v

theorem compose_mapVals' (ρ : Nat → Nat) (l m : SlotMap) :
    composePartial l (mapVals ρ m) = mapVals ρ (composePartial l m) := by
  rw [composePartial_eq, composePartial_eq]
  suffices ∀ acc, l.foldl (cpStep (mapVals ρ m)) (mapVals ρ acc) = mapVals ρ (l.foldl (cpStep m) acc) from this []
  induction l with
  | nil => intro acc; rfl
  | cons p t ih =>
    intro acc
    simp only [List.foldl_cons]
    have : cpStep (mapVals ρ m) (mapVals ρ acc) p = mapVals ρ (cpStep m acc p) := by
      unfold cpStep
      rw [get_mapVals]
      cases get m p.2 with
      | none => rfl
      | some z => exact insert_mapVals ρ acc p.1 z
    rw [this]; exact ih _

theorem values_cpStep (o : SlotMap) : ∀ (l acc : SlotMap), (∀ y ∈ valuesVec acc, y ∈ valuesVec o) →
    ∀ y ∈ valuesVec (l.foldl (cpStep o) acc), y ∈ valuesVec o := by
  have hins : ∀ (acc : SlotMap) (k v : Nat), ∀ y ∈ valuesVec (insert acc k v), y = v ∨ y ∈ valuesVec acc := by
    intro acc k v
    induction acc with
    | nil => intro y hy; simp [SlotMap.insert, valuesVec] at hy; exact Or.inl hy
    | cons q t ih =>
      obtain ⟨a, b⟩ := q
      intro y hy
      simp only [SlotMap.insert] at hy
      split at hy
      · simp only [valuesVec, List.map_cons, List.mem_cons] at hy ⊢; rcases hy with h | h | h <;> simp [h]
      · split at hy
        · simp only [valuesVec, List.map_cons, List.mem_cons] at hy ⊢; rcases hy with h | h <;> simp [h]
        · simp only [valuesVec, List.map_cons, List.mem_cons] at hy ⊢
          rcases hy with h | h
          · simp [h]
          · rcases ih y h with h' | h'
            · exact Or.inl h'
            · exact Or.inr (Or.inr h')
  intro l
  induction l with
  | nil => intro acc h; exact h
  | cons p t ih =>
    intro acc h
    simp only [List.foldl_cons]
    apply ih
    intro y hy
    unfold cpStep at hy
    cases hg : get o p.2 with
    | none => rw [hg] at hy; exact h y hy
    | some z =>
      rw [hg] at hy
      rcases hins acc p.1 z y hy with h' | h'
      · subst h'
        clear hy ih h
        induction o with
        | nil => simp [SlotMap.get] at hg
        | cons q t' ih' =>
          obtain ⟨a, b⟩ := q
          simp only [SlotMap.get] at hg
          split at hg
          · simp only [valuesVec, List.map_cons, List.mem_cons]; left; exact (Option.some.inj hg).symm
          · simp only [valuesVec, List.map_cons, List.mem_cons]; right; exact ih' hg
      · exact h y h'

theorem values_compose (l m : SlotMap) : ∀ y ∈ valuesVec (composePartial l m), y ∈ valuesVec m := by
  rw [composePartial_eq]
  exact values_cpStep m l [] (by intro y hy; simp [valuesVec] at hy)

/-! ### `find_enode` -/

theorem rename_app (ρ : Nat → Nat) (a : AppId) : Field.rename ρ (.app a) = .app (renApp ρ a) := rfl

theorem go_rename {s : Snap} (hw : UfWF s) (ρ : Nat → Nat) : ∀ (f : Field),
    findNode.go s (Field.rename ρ f) = (findNode.go s f).map (Field.rename ρ)
  | .slot x => rfl
  | .lit v => rfl
  | .app a => by
    simp only [rename_app, findNode.go, find_renApp hw]
    cases find s a <;> rfl
  | .bind x f => by
    simp only [Field.rename, findNode.go, go_rename hw ρ f]
    cases findNode.go s f <;> rfl

theorem mapM_rename {α β} (g : α → Option β) (r : α → α) (r' : β → β) (h : ∀ a, g (r a) = (g a).map r') :
    ∀ (l : List α), (l.map r).mapM g = (l.mapM g).map (List.map r')
  | [] => rfl
  | a :: t => by
    simp only [List.map_cons, List.mapM_cons, h a, mapM_rename g r r' h t]
    cases g a with
    | none => rfl
    | some b => cases t.mapM g <;> rfl

theorem findNode_rename {s : Snap} (hw : UfWF s) (ρ : Nat → Nat) (n : Node) :
    findNode s (Node.rename ρ n) = (findNode s n).map (Node.rename ρ) := by
  unfold findNode Node.rename
  simp only
  rw [mapM_rename _ _ _ (go_rename hw ρ)]
  cases n.fields.mapM (findNode.go s) <;> rfl

/-! ### variants -/

theorem appOcc_field_rename (ρ : Nat → Nat) : ∀ (f : Field), Field.appOcc (Field.rename ρ f) = (Field.appOcc f).map (renApp ρ)
  | .slot x => rfl
  | .lit v => rfl
  | .app a => rfl
  | .bind x f => by simp [Field.rename, Field.appOcc, appOcc_field_rename ρ f]

theorem appOcc_rename (ρ : Nat → Nat) (n : Node) : Node.appOcc (Node.rename ρ n) = (Node.appOcc n).map (renApp ρ) := by
  unfold Node.appOcc Node.rename
  simp only
  induction n.fields with
  | nil => rfl
  | cons f t ih => simp only [List.map_cons, List.flatMap_cons, List.map_append, appOcc_field_rename, ih]

theorem applyPerm_renApp (ρ : Nat → Nat) (p : Perm) (a : AppId) : applyPerm p (renApp ρ a) = renApp ρ (applyPerm p a) := by
  simp only [applyPerm, renApp, compose_mapVals']

theorem replaceApps_rename (ρ : Nat → Nat) : ∀ (f : Field) (as : List AppId),
    replaceApps (Field.rename ρ f) (as.map (renApp ρ)) =
      (Field.rename ρ (replaceApps f as).1, (replaceApps f as).2.map (renApp ρ))
  | .slot x, as => rfl
  | .lit v, as => rfl
  | .app a, [] => rfl
  | .app a, b :: rest => rfl
  | .bind x f, as => by
    simp only [Field.rename, replaceApps, replaceApps_rename ρ f as]

theorem withApps_rename (ρ : Nat → Nat) (n : Node) (as : List AppId) :
    withApps (Node.rename ρ n) (as.map (renApp ρ)) = Node.rename ρ (withApps n as) := by
  unfold withApps Node.rename
  simp only
  congr 1
  suffices ∀ (fs : List Field) (acc : List Field) (as : List AppId),
      ((fs.map (Field.rename ρ)).foldl (fun (acc : List Field × List AppId) f =>
        let (f', rest) := replaceApps f acc.2; (acc.1 ++ [f'], rest)) (acc.map (Field.rename ρ), as.map (renApp ρ))) =
      (((fs.foldl (fun (acc : List Field × List AppId) f =>
        let (f', rest) := replaceApps f acc.2; (acc.1 ++ [f'], rest)) (acc, as)).1).map (Field.rename ρ),
       ((fs.foldl (fun (acc : List Field × List AppId) f =>
        let (f', rest) := replaceApps f acc.2; (acc.1 ++ [f'], rest)) (acc, as)).2).map (renApp ρ)) by
    have := this n.fields [] as
    simp only [List.map_nil] at this
    rw [this]
  intro fs
  induction fs with
  | nil => intro acc as; rfl
  | cons f t ih =>
    intro acc as
    simp only [List.map_cons, List.foldl_cons]
    rw [replaceApps_rename]
    have := ih (acc ++ [(replaceApps f as).1]) (replaceApps f as).2
    simp only [List.map_append, List.map_cons, List.map_nil] at this
    exact this

theorem renApp_id (ρ : Nat → Nat) (a : AppId) : (renApp ρ a).id = a.id := rfl

theorem variants_rename (s : Snap) (ρ : Nat → Nat) (n : Node) :
    variants s (Node.rename ρ n) = (variants s n).map (Node.rename ρ) := by
  unfold variants
  simp only [appOcc_rename]
  simp only [List.map_map, Function.comp_def, renApp_id]
  split
  · rfl
  · rw [List.map_map]
    apply List.map_congr_left
    intro ps _
    simp only [Function.comp]
    rw [← withApps_rename]
    congr 1
    rw [List.zip_map_left, List.map_map, List.map_map]
    apply List.map_congr_left
    intro ap _
    simp only [Function.comp, Prod.map, id]
    exact applyPerm_renApp ρ ap.2 ap.1

/-! ### minimal variant, weak shape and bijection -/

def Injective (ρ : Nat → Nat) : Prop := ∀ x y, ρ x = ρ y → x = y

theorem weakShape_rename' (n : Node) {ρ : Nat → Nat} (hρ : Injective ρ) :
    (Node.weakShape (Node.rename ρ n)).1 = (Node.weakShape n).1 ∧
    Shape.Rel ρ (Node.allOcc n) (Node.weakShapeFields n.fields ([], 0)).2
      (Node.weakShapeFields (n.fields.map (Field.rename ρ)) ([], 0)).2 := by
  have hinj : Shape.InjOn ρ (Node.allOcc n) := fun a _ b _ h => hρ a b h
  have h0 : Shape.Rel ρ (Node.allOcc n) (([], 0) : Field.WS) ([], 0) :=
    ⟨rfl, SlotMap.wf_nil, SlotMap.wf_nil, fun _ _ => rfl⟩
  have hA : ∀ f ∈ n.fields, ∀ x ∈ Field.allOcc f, x ∈ Node.allOcc n := by
    intro f hf x hx
    simp only [Node.allOcc, List.mem_flatMap]
    exact ⟨f, hf, hx⟩
  obtain ⟨h1, h2⟩ := Shape.weakShapeFields_rel hinj n.fields h0 hA
  refine ⟨?_, h2⟩
  simp only [Node.weakShape, Node.rename]
  rw [h1]

theorem foldl_min_rename {α} (r : Node → Node) (key : Node → α) (lt : α → α → Bool) (hk : ∀ x, key (r x) = key x) :
    ∀ (vs : List Node) (v : Node),
      (vs.map r).foldl (fun best x => if lt (key x) (key best) then x else best) (r v) =
        r (vs.foldl (fun best x => if lt (key x) (key best) then x else best) v)
  | [], v => rfl
  | x :: t, v => by
    simp only [List.map_cons, List.foldl_cons, hk]
    by_cases h : lt (key x) (key v) = true
    · simp only [h, if_true]; exact foldl_min_rename r key lt hk t x
    · simp only [h, Bool.false_eq_true, if_false]; exact foldl_min_rename r key lt hk t v

theorem preShape_rename {s : Snap} (hw : UfWF s) {ρ : Nat → Nat} (hρ : Injective ρ) (n : Node) :
    preShape s (Node.rename ρ n) = (preShape s n).map (Node.rename ρ) := by
  unfold preShape
  rw [findNode_rename hw]
  cases findNode s n with
  | none => rfl
  | some n' =>
    simp only [Option.map_some]
    rw [variants_rename]
    cases variants s n' with
    | nil => rfl
    | cons v vs =>
      simp only [List.map_cons, Option.map_some]
      congr 1
      exact foldl_min_rename (Node.rename ρ) (fun x => Node.allOcc (Node.weakShape x).1) lexLt
        (fun x => by rw [(weakShape_rename' x hρ).1]) vs v

theorem ext_see_subset (s : Nat) (st : Field.WS) : ∀ x ∈ ShapeDecode.extSee s st, x = s := by
  intro x hx
  unfold ShapeDecode.extSee at hx
  split at hx
  · simp at hx
  · simpa using hx

theorem ext_values_subset : ∀ (l : List (Nat × Nat)) (st : Field.WS), ∀ x ∈ ShapeDecode.extValues l st, x ∈ valuesVec l
  | [], st, x, hx => by simp [ShapeDecode.extValues] at hx
  | (k, v) :: t, st, x, hx => by
    simp only [ShapeDecode.extValues, List.mem_append] at hx
    simp only [valuesVec, List.map_cons, List.mem_cons]
    rcases hx with hx | hx
    · left; exact ext_see_subset v st x hx
    · right; exact ext_values_subset t _ x hx

theorem ext_field_subset : ∀ (f : Field) (st : Field.WS), ∀ x ∈ ShapeDecode.extField f st, x ∈ Field.allOcc f
  | .slot s, st, x, hx => by
    simp only [ShapeDecode.extField] at hx
    simp [Field.allOcc, ext_see_subset s st x hx]
  | .lit v, st, x, hx => by simp [ShapeDecode.extField] at hx
  | .app a, st, x, hx => ext_values_subset a.m st x hx
  | .bind s f, st, x, hx => by
    simp only [ShapeDecode.extField, List.mem_cons] at hx
    simp only [Field.allOcc, List.mem_cons]
    rcases hx with hx | hx
    · exact Or.inl hx
    · exact Or.inr (ext_field_subset f _ x hx)

theorem ext_fields_subset : ∀ (fs : List Field) (st : Field.WS), ∀ x ∈ ShapeDecode.extFields fs st,
    x ∈ fs.flatMap Field.allOcc
  | [], st, x, hx => by simp [ShapeDecode.extFields] at hx
  | f :: t, st, x, hx => by
    simp only [ShapeDecode.extFields, List.mem_append] at hx
    simp only [List.flatMap_cons, List.mem_append]
    rcases hx with hx | hx
    · exact Or.inl (ext_field_subset f st x hx)
    · exact Or.inr (ext_fields_subset t _ x hx)

/-- the keys of the final weak-shape renaming are occurrences of the node -/
theorem final_keys (n : Node) (k w : Nat) (h : SlotMap.get (Node.weakShapeFields n.fields ([], 0)).2.1 k = some w) :
    k ∈ Node.allOcc n := by
  have hinv := ShapeApply.final_inv n
  have := (hinv.dec k w h).2
  have hm : k ∈ ShapeDecode.namesOf n := List.mem_of_getElem? this
  exact ext_fields_subset n.fields _ k hm

theorem allOcc_node_rename (ρ : Nat → Nat) (n : Node) : Node.allOcc (Node.rename ρ n) = (Node.allOcc n).map ρ := by
  unfold Node.allOcc Node.rename
  simp only
  induction n.fields with
  | nil => rfl
  | cons f t ih => simp only [List.map_cons, List.flatMap_cons, List.map_append, ShapeDecode.allOcc_rename, ih]

/-- **the returned bijection of a renamed node is the renamed bijection** -/
theorem weakShape_rename_bij (n : Node) {ρ : Nat → Nat} (hρ : Injective ρ) :
    Node.weakShape (Node.rename ρ n) = ((Node.weakShape n).1, mapVals ρ (Node.weakShape n).2) := by
  obtain ⟨h1, hrel⟩ := weakShape_rename' n hρ
  refine Prod.ext h1 ?_
  show (Node.weakShape (Node.rename ρ n)).2 = mapVals ρ (Node.weakShape n).2
  simp only [Node.weakShape, Node.rename]
  have hinv := ShapeApply.final_inv n
  have hinv' := ShapeApply.final_inv (Node.rename ρ n)
  have hi := ShapeApply.inj_of_inv hinv
  have hi' := ShapeApply.inj_of_inv hinv'
  simp only [Node.rename] at hinv' hi'
  apply ext (wf_inverse _) (wf_mapVals ρ (wf_inverse _))
  intro y
  rw [get_mapVals]
  cases hg : SlotMap.get (inverse (Node.weakShapeFields n.fields ([], 0)).2.1) y with
  | some x =>
    have hx := (get_inverse hinv.wf hi x y).mp hg
    have hxa := final_keys n x y hx
    have := hrel.get x hxa
    rw [hx] at this
    exact (get_inverse hinv'.wf hi' (ρ x) y).mpr this
  | none =>
    simp only [Option.map_none]
    rw [get_inverse_none hinv'.wf hi']
    intro hm
    obtain ⟨p, hp, he⟩ := List.mem_map.mp hm
    have hgp := (get_eq_some_iff hinv'.wf p.1 p.2).mpr hp
    have hk := final_keys (Node.rename ρ n) p.1 p.2 hgp
    rw [allOcc_node_rename] at hk
    obtain ⟨x, hxa, hxe⟩ := List.mem_map.mp hk
    have := hrel.get x hxa
    rw [hxe, hgp, he] at this
    have hy := (get_inverse hinv.wf hi x y).mpr this.symm
    rw [hg] at hy; simp at hy

/-! ### the hashcons lookup -/

theorem filter_mapVals (ρ : Nat → Nat) (P : Nat → Bool) (m : SlotMap) :
    (mapVals ρ m).filter (fun p => P p.1) = mapVals ρ (m.filter fun p => P p.1) := by
  unfold mapVals
  rw [List.filter_map]
  rfl

theorem findSome_map {α β} (f : α → Option β) (r : β → β) : ∀ (l : List α),
    l.findSome? (fun c => (f c).map r) = (l.findSome? f).map r
  | [] => rfl
  | a :: t => by
    simp only [List.findSome?_cons]
    cases f a with
    | none => exact findSome_map f r t
    | some b => rfl

theorem lookupShape_mapVals (s : Snap) (sh : Node) (ρ : Nat → Nat) (nbij : SlotMap) :
    lookupShape s sh (mapVals ρ nbij) = (lookupShape s sh nbij).map (renApp ρ) := by
  unfold lookupShape
  rw [← findSome_map]
  congr 1
  funext c
  cases c.nodes.find? (·.1 == sh) with
  | none => rfl
  | some e =>
    obtain ⟨_, cnbij⟩ := e
    simp only [Option.map_some, renApp]
    rw [compose_mapVals', filter_mapVals ρ (fun k => c.slots.contains k)]

/-- **`lookup` is equivariant**: renaming every slot occurrence of the queried e-node injectively renames the
arguments of the returned invocation the same way (and a miss stays a miss) -/
theorem lookup_rename {s : Snap} (hw : UfWF s) {ρ : Nat → Nat} (hρ : Injective ρ) (n : Node) :
    lookup s (Node.rename ρ n) = (lookup s n).map (renApp ρ) := by
  unfold lookup shape
  rw [preShape_rename hw hρ]
  cases preShape s n with
  | none => rfl
  | some v =>
    simp only [Option.map_some]
    rw [weakShape_rename_bij v hρ]
    exact lookupShape_mapVals s _ ρ _

end SV.Snap
