import SlotVerif.Proofs.Snapshot
/-!
Path compression (`unionfind_get_impl`, `/repo/src/egraph/find.rs`) preserves the meaning of the
union-find: the call returns what the read-only `ufGet` returns, and afterwards every id still
resolves to the same leader invocation as before.  From the C19 algebra of slot maps
(associativity of partial composition, idempotence of a leader's partial identity).
-/
namespace SV
namespace Snap
open SlotMap

/-- `ufGet` as a function of the table alone -/
def ufGetL (uf : List AppId) : Nat → Nat → Option AppId
  | 0, _ => none
  | fuel + 1, i =>
    match uf[i]? with
    | none => none
    | some entry =>
      if entry.id = i then some entry
      else match ufGetL uf fuel entry.id with
        | none => none
        | some leader => some { id := leader.id, m := composePartial leader.m entry.m }

theorem ufGet_eq_L (s : Snap) : ∀ (fuel i : Nat), ufGet s fuel i = ufGetL s.uf fuel i
  | 0, _ => rfl
  | fuel + 1, i => by
    simp only [ufGet, ufGetL]
    cases s.uf[i]? with
    | none => rfl
    | some entry =>
      simp only
      by_cases h : entry.id = i
      · simp [h]
      · simp only [h, if_false]; rw [ufGet_eq_L s fuel entry.id]; rfl

def UfWF' (uf : List AppId) : Prop := ∀ e ∈ uf, WF e.m
def LeaderId' (uf : List AppId) : Prop :=
  ∀ (i : Nat) (e : AppId), uf[i]? = some e → e.id = i → ∀ p ∈ e.m, p.1 = p.2

/-- more fuel does not change a result -/
theorem ufGetL_succ {uf : List AppId} : ∀ (f i : Nat) (r : AppId), ufGetL uf f i = some r → ufGetL uf (f + 1) i = some r
  | 0, _, _, h => by simp [ufGetL] at h
  | f + 1, i, r, h => by
    rw [ufGetL] at h ⊢
    cases he : uf[i]? with
    | none => rw [he] at h; simp at h
    | some entry =>
      rw [he] at h; simp only at h ⊢
      by_cases hid : entry.id = i
      · simpa [hid] using h
      · simp only [hid, if_false] at h ⊢
        cases hl : ufGetL uf f entry.id with
        | none => rw [hl] at h; simp at h
        | some l => rw [hl] at h; rw [ufGetL_succ f entry.id l hl]; exact h

theorem ufGetL_add {uf : List AppId} (f i : Nat) (r : AppId) (h : ufGetL uf f i = some r) :
    ∀ k, ufGetL uf (f + k) i = some r
  | 0 => h
  | k + 1 => ufGetL_succ _ _ _ (ufGetL_add f i r h k)

theorem ufGetL_le {uf : List AppId} {f g i : Nat} {r : AppId} (h : ufGetL uf f i = some r) (hle : f ≤ g) :
    ufGetL uf g i = some r := by
  obtain ⟨k, rfl⟩ := Nat.exists_eq_add_of_le hle
  exact ufGetL_add f i r h k

/-- the result does not depend on the fuel -/
theorem ufGetL_det {uf : List AppId} {f g i : Nat} {r q : AppId} (h : ufGetL uf f i = some r) (h' : ufGetL uf g i = some q) :
    r = q := by
  have a := ufGetL_le h (Nat.le_max_left f g)
  have b := ufGetL_le h' (Nat.le_max_right f g)
  rw [a] at b; exact Option.some.inj b

/-- shape of a result: the leader's own entry, possibly pre-composed with a well-formed map -/
theorem ufGetL_form {uf : List AppId} (hw : UfWF' uf) (fuel i : Nat) (r : AppId) (h : ufGetL uf fuel i = some r) :
    ∃ e, uf[r.id]? = some e ∧ e.id = r.id ∧ (r.m = e.m ∨ ∃ X, WF X ∧ r.m = composePartial e.m X) := by
  have := ufGet_form (s := { uf := uf, classes := [] }) hw fuel i r (by rw [ufGet_eq_L]; exact h)
  exact this

/-- a leader's partial identity is absorbed by every result that ends in this leader -/
theorem root_absorb {uf : List AppId} (hw : UfWF' uf) (hl : LeaderId' uf) {e : AppId} {j : Nat}
    (he : uf[j]? = some e) (hid : e.id = j) {m : SlotMap} (hm : m = e.m ∨ ∃ X, WF X ∧ m = composePartial e.m X) :
    composePartial e.m m = m := by
  have hwe : WF e.m := hw e (List.mem_of_getElem? he)
  have hidem : composePartial e.m e.m = e.m := compose_partial_identity_self hwe (hl _ e he hid)
  rcases hm with h1 | ⟨X, _, h1⟩
  · rw [h1, hidem]
  · rw [h1, ← compose_assoc hwe hwe X, hidem]

/-- **one write-back preserves every lookup**: overwriting entry `i` by its own resolved invocation changes no result -/
theorem set_preserves {uf : List AppId} (hw : UfWF' uf) (hl : LeaderId' uf) {i F : Nat} {new : AppId}
    (hnew : ufGetL uf F i = some new) :
    ∀ (f j : Nat) (r : AppId), ufGetL uf f j = some r → ufGetL (uf.set i new) f j = some r
  | 0, _, _, h => by simp [ufGetL] at h
  | f + 1, j, r, h => by
    by_cases hji : j = i
    · subst hji
      have hrn : r = new := ufGetL_det h hnew
      subst hrn
      rw [ufGetL] at h ⊢
      cases he : uf[j]? with
      | none => rw [he] at h; simp at h
      | some entry =>
        have hlt : j < uf.length := (List.getElem?_eq_some_iff.mp he).1
        rw [he] at h; simp only at h
        rw [List.getElem?_set_self hlt]; simp only
        by_cases hid : entry.id = j
        · simp only [hid, if_true] at h
          have : entry = r := Option.some.inj h
          subst this; simp [hid]
        · simp only [hid, if_false] at h
          cases hlead : ufGetL uf f entry.id with
          | none => rw [hlead] at h; simp at h
          | some l =>
            rw [hlead] at h
            have hr : r = { id := l.id, m := composePartial l.m entry.m } := (Option.some.inj h).symm
            obtain ⟨e, he1, he2, he3⟩ := ufGetL_form hw f entry.id l hlead
            -- the leader is not `j` itself
            have hne : l.id ≠ j := by
              intro hc
              rw [hc] at he1 he2
              rw [he] at he1
              have : entry = e := Option.some.inj he1
              exact hid (this ▸ he2)
            have hrid : r.id = l.id := by rw [hr]
            have hne' : ¬ r.id = j := by rw [hrid]; exact hne
            simp only [hne', if_false]
            -- in the new table the leader entry is unchanged and is found with one unit of fuel
            have hf : 0 < f := by
              cases f with
              | zero => simp [ufGetL] at hlead
              | succ _ => omega
            obtain ⟨f', rfl⟩ : ∃ f', f = f' + 1 := ⟨f - 1, by omega⟩
            have hroot : ufGetL (uf.set j r) (f' + 1) r.id = some e := by
              rw [ufGetL, hrid, List.getElem?_set_ne (Ne.symm hne), he1]
              simp [he2]
            rw [hroot]
            simp only
            have hwentry : WF entry.m := hw entry (List.mem_of_getElem? he)
            have hwe : WF e.m := hw e (List.mem_of_getElem? he1)
            have hrm : r.m = e.m ∨ ∃ X, WF X ∧ r.m = composePartial e.m X := by
              right
              rcases he3 with h1 | ⟨X, hX, h1⟩
              · exact ⟨entry.m, hwentry, by rw [hr]; simp [h1]⟩
              · refine ⟨composePartial X entry.m, wf_composePartial _ _, ?_⟩
                rw [hr]; simp only [h1]
                exact compose_assoc hwe hX entry.m
            have habs := root_absorb hw hl (j := l.id) he1 he2 hrm
            rw [habs]
            congr 1
            cases r; simp only at hrid he2 ⊢; rw [he2, hrid]
    · rw [ufGetL] at h ⊢
      rw [List.getElem?_set_ne (Ne.symm hji)]
      cases he : uf[j]? with
      | none => rw [he] at h; simp at h
      | some entry =>
        rw [he] at h; simp only at h ⊢
        by_cases hid : entry.id = j
        · simpa [hid] using h
        · simp only [hid, if_false] at h ⊢
          cases hlead : ufGetL uf f entry.id with
          | none => rw [hlead] at h; simp at h
          | some l =>
            rw [hlead] at h
            rw [set_preserves hw hl hnew f entry.id l hlead]; exact h

theorem wf_set {uf : List AppId} (hw : UfWF' uf) (i : Nat) {new : AppId} (hn : WF new.m) : UfWF' (uf.set i new) := by
  intro e he
  rcases List.mem_or_eq_of_mem_set he with h | h
  · exact hw e h
  · subst h; exact hn

/-- the leader facts survive the write-back of a resolved invocation -/
theorem leaderId_set {uf : List AppId} (hw : UfWF' uf) (hl : LeaderId' uf) {i F : Nat} {new : AppId}
    (hnew : ufGetL uf F i = some new) : LeaderId' (uf.set i new) := by
  intro j e hj hid p hp
  by_cases hji : j = i
  · subst hji
    have hlt : j < uf.length := by
      have := (List.getElem?_eq_some_iff.mp hj).1
      simpa using this
    rw [List.getElem?_set_self hlt] at hj
    have : new = e := Option.some.inj hj
    subst this
    -- `new.id = j`: then `j` is a leader and `new` is its own entry
    obtain ⟨e', he1, he2, _⟩ := ufGetL_form hw F j new hnew
    rw [hid] at he1 he2
    have : ufGetL uf 1 j = some e' := by simp [ufGetL, he1, he2]
    have heq := ufGetL_det this hnew
    subst heq
    exact hl j e' he1 he2 p hp
  · rw [List.getElem?_set_ne (Ne.symm hji)] at hj
    exact hl j e hj hid p hp

/-- **path compression is invisible**: `ufGetW` returns what the read-only lookup returns, the new table keeps
its invariants and its length, and every lookup that succeeded before succeeds with the same result after -/
theorem ufGetW_spec : ∀ (f i : Nat) (uf : List AppId) (r : AppId) (uf' : List AppId), UfWF' uf → LeaderId' uf →
    ufGetW uf f i = some (r, uf') →
    ufGetL uf f i = some r ∧ UfWF' uf' ∧ LeaderId' uf' ∧ uf'.length = uf.length ∧
      (∀ (g j : Nat) (q : AppId), ufGetL uf g j = some q → ufGetL uf' g j = some q)
  | 0, _, _, _, _, _, _, h => by simp [ufGetW] at h
  | f + 1, i, uf, r, uf', hw, hl, h => by
    rw [ufGetW] at h
    cases he : uf[i]? with
    | none => rw [he] at h; simp at h
    | some entry =>
      rw [he] at h; simp only at h
      by_cases hid : entry.id = i
      · simp only [hid, if_true] at h
        have h1 : entry = r := (Prod.mk.inj (Option.some.inj h)).1
        have h2 : uf = uf' := (Prod.mk.inj (Option.some.inj h)).2
        subst h1 h2
        exact ⟨by simp [ufGetL, he, hid], hw, hl, rfl, fun _ _ _ hq => hq⟩
      · simp only [hid, if_false] at h
        cases hrec : ufGetW uf f entry.id with
        | none => rw [hrec] at h; simp at h
        | some pr =>
          obtain ⟨leader, u1⟩ := pr
          rw [hrec] at h; simp only at h
          have h1 : r = { id := leader.id, m := composePartial leader.m entry.m } := (Prod.mk.inj (Option.some.inj h)).1.symm
          have h2 : uf' = u1.set i r := by rw [h1]; exact (Prod.mk.inj (Option.some.inj h)).2.symm
          obtain ⟨ih1, ihw, ihl, ihlen, ihp⟩ := ufGetW_spec f entry.id uf leader u1 hw hl hrec
          have hres : ufGetL uf (f + 1) i = some r := by
            rw [ufGetL, he]; simp only [hid, if_false]; rw [ih1, h1]
          have hres1 : ufGetL u1 (f + 1) i = some r := ihp _ _ _ hres
          have hwr : WF r.m := by rw [h1]; exact wf_composePartial _ _
          subst h2
          refine ⟨hres, wf_set ihw i hwr, leaderId_set ihw ihl hres1, by simp [ihlen], ?_⟩
          intro g j q hq
          exact set_preserves ihw ihl hres1 g j q (ihp g j q hq)

/-- after the call, `i` points directly at its leader: one more step resolves it -/
theorem ufGetW_compressed {f i : Nat} {uf : List AppId} {r : AppId} {uf' : List AppId} (hw : UfWF' uf) (hl : LeaderId' uf)
    (h : ufGetW uf f i = some (r, uf')) : ufGetL uf' 2 i = some r := by
  obtain ⟨h1, hw', hl', hlen, hp⟩ := ufGetW_spec f i uf r uf' hw hl h
  have hr' := hp _ _ _ h1
  -- the entry at `i` in the new table
  cases f with
  | zero => simp [ufGetW] at h
  | succ f =>
    rw [ufGetW] at h
    cases he : uf[i]? with
    | none => rw [he] at h; simp at h
    | some entry =>
      rw [he] at h; simp only at h
      by_cases hid : entry.id = i
      · simp only [hid, if_true] at h
        have h1' : entry = r := (Prod.mk.inj (Option.some.inj h)).1
        have h2 : uf = uf' := (Prod.mk.inj (Option.some.inj h)).2
        subst h1' h2
        simp [ufGetL, he, hid]
      · simp only [hid, if_false] at h
        cases hrec : ufGetW uf f entry.id with
        | none => rw [hrec] at h; simp at h
        | some pr =>
          obtain ⟨leader, u1⟩ := pr
          rw [hrec] at h; simp only at h
          have h2 : uf' = u1.set i r := by
            have := (Prod.mk.inj (Option.some.inj h))
            rw [← this.1]; exact this.2.symm
          have hlt : i < u1.length := by
            have := (ufGetW_spec f entry.id uf leader u1 hw hl hrec).2.2.2.1
            rw [this]; exact (List.getElem?_eq_some_iff.mp he).1
          have hent : uf'[i]? = some r := by rw [h2, List.getElem?_set_self hlt]
          -- the leader of `r` in the new table
          obtain ⟨e, he1, he2, he3⟩ := ufGetL_form hw' _ i r hr'
          by_cases hri : r.id = i
          · rw [hri, hent] at he1
            have : r = e := Option.some.inj he1
            simp [ufGetL, hent, hri]
          · have habs := root_absorb hw' hl' (j := r.id) he1 he2 he3
            have hstep : ufGetL uf' 1 r.id = some e := by simp [ufGetL, he1, he2]
            rw [ufGetL, hent]; simp only [hri, if_false]
            rw [hstep]; simp only
            rw [habs]; congr 1
            cases r; simp only at he2 ⊢; rw [he2]

/-- a table on which every id resolves (no cycle) -/
def Total (uf : List AppId) : Prop := ∀ j, j < uf.length → ∃ r, ufGetL uf (uf.length + 1) j = some r

theorem compressAll_spec : ∀ (ids : List Nat) (uf uf' : List AppId), UfWF' uf → LeaderId' uf →
    compressAll uf ids = some uf' →
    UfWF' uf' ∧ LeaderId' uf' ∧ uf'.length = uf.length ∧
      (∀ (g j : Nat) (q : AppId), ufGetL uf g j = some q → ufGetL uf' g j = some q)
  | [], uf, uf', hw, hl, h => by
    simp [compressAll] at h; subst h
    exact ⟨hw, hl, rfl, fun _ _ _ hq => hq⟩
  | i :: ids, uf, uf', hw, hl, h => by
    unfold compressAll at h
    rw [List.foldl_cons] at h
    simp only [Option.bind_some] at h
    cases hstep : ufGetW uf (uf.length + 1) i with
    | none =>
      rw [hstep] at h
      simp only [Option.map_none] at h
      have hnone : ∀ (l : List Nat), l.foldl (fun (acc : Option (List AppId)) i => acc.bind fun u => (ufGetW u (u.length + 1) i).map (·.2)) none = none := by
        intro l; induction l with
        | nil => rfl
        | cons _ _ ih => simpa using ih
      rw [hnone] at h; simp at h
    | some pr =>
      obtain ⟨r, u1⟩ := pr
      rw [hstep] at h
      simp only [Option.map_some] at h
      obtain ⟨_, hw1, hl1, hlen1, hp1⟩ := ufGetW_spec _ i uf r u1 hw hl hstep
      obtain ⟨hw2, hl2, hlen2, hp2⟩ := compressAll_spec ids u1 uf' hw1 hl1 h
      exact ⟨hw2, hl2, by rw [hlen2, hlen1], fun g j q hq => hp2 g j q (hp1 g j q hq)⟩

/-- on a cycle-free table the lookups before and after any sequence of compressing calls coincide, for every id -/
theorem compressAll_total {ids : List Nat} {uf uf' : List AppId} (hw : UfWF' uf) (hl : LeaderId' uf) (ht : Total uf)
    (h : compressAll uf ids = some uf') (j : Nat) (hj : j < uf.length) :
    ufGetL uf' (uf'.length + 1) j = ufGetL uf (uf.length + 1) j := by
  obtain ⟨_, _, hlen, hp⟩ := compressAll_spec ids uf uf' hw hl h
  obtain ⟨r, hr⟩ := ht j hj
  rw [hr, hlen]; exact hp _ _ _ hr

end Snap
end SV
