import SlotVerif.Model.SlotMap
import SlotVerif.Proofs.ListAux
/-! Helper lemmas for `Model/SlotMap.lean` (core Lean only). -/
namespace SV.SlotMap

theorem wf_nil : WF [] := List.Pairwise.nil

theorem wf_cons {a : Nat × Nat} {t : SlotMap} :
    WF (a :: t) ↔ (∀ p ∈ t, a.1 < p.1) ∧ WF t := by
  unfold WF; exact List.pairwise_cons

/-- keys of `insert`. -/
theorem mem_insert {m : SlotMap} {k v : Nat} {p : Nat × Nat} :
    p ∈ insert m k v → p = (k, v) ∨ p ∈ m := by
  induction m with
  | nil => simp [insert]
  | cons a t ih =>
    obtain ⟨a, b⟩ := a
    simp only [insert]
    split
    · intro h; simp at h; rcases h with h | h | h <;> simp [h]
    · split
      · intro h; simp at h; rcases h with h | h <;> simp [h]
      · intro h; simp at h; rcases h with h | h
        · simp [h]
        · rcases ih h with h | h <;> simp [h]

theorem wf_insert {m : SlotMap} (h : WF m) (k v : Nat) : WF (insert m k v) := by
  induction m with
  | nil => simp [insert, WF]
  | cons a t ih =>
    obtain ⟨a, b⟩ := a
    rw [wf_cons] at h
    simp only [insert]
    split
    · rename_i hlt
      rw [wf_cons]; refine ⟨?_, ?_⟩
      · intro p hp; simp at hp; rcases hp with hp | hp
        · simp [hp]; exact hlt
        · have := h.1 p hp; simp at this ⊢; omega
      · rw [wf_cons]; exact h
    · split
      · rename_i _ heq
        rw [wf_cons]; refine ⟨?_, h.2⟩
        intro p hp; have := h.1 p hp; simp at this ⊢; omega
      · rw [wf_cons]; refine ⟨?_, ih h.2⟩
        intro p hp
        rcases mem_insert hp with hp | hp
        · simp [hp]; omega
        · exact h.1 p hp

theorem get_none_of_lt {m : SlotMap} {k : Nat} (h : ∀ p ∈ m, k < p.1) : get m k = none := by
  induction m with
  | nil => rfl
  | cons a t ih =>
    obtain ⟨a, b⟩ := a
    simp only [get]
    have := h (a, b) (by simp)
    simp at this
    rw [if_neg (by omega)]
    exact ih (fun p hp => h p (by simp [hp]))

theorem get_insert {m : SlotMap} (h : WF m) (k v k' : Nat) :
    get (insert m k v) k' = if k' = k then some v else get m k' := by
  induction m with
  | nil => simp [insert, get]
  | cons a t ih =>
    obtain ⟨a, b⟩ := a
    rw [wf_cons] at h
    simp only [insert]
    split
    · simp only [get]
    · split
      · rename_i heq; subst heq
        simp only [get]
        split <;> rfl
      · simp only [get]
        rw [ih h.2]
        split
        · rename_i h1; subst h1
          rw [if_neg (by omega)]
        · rfl

theorem mem_remove {m : SlotMap} {k : Nat} {p : Nat × Nat} : p ∈ remove m k → p ∈ m := by
  induction m with
  | nil => simp [remove]
  | cons a t ih =>
    obtain ⟨a, b⟩ := a
    simp only [remove]
    split
    · intro h; simp [h]
    · intro h; simp at h; rcases h with h | h
      · simp [h]
      · simp [ih h]

theorem wf_remove {m : SlotMap} (h : WF m) (k : Nat) : WF (remove m k) := by
  induction m with
  | nil => simp [remove, WF]
  | cons a t ih =>
    obtain ⟨a, b⟩ := a
    rw [wf_cons] at h
    simp only [remove]
    split
    · exact h.2
    · rw [wf_cons]; exact ⟨fun p hp => h.1 p (mem_remove hp), ih h.2⟩

theorem get_remove {m : SlotMap} (h : WF m) (k k' : Nat) :
    get (remove m k) k' = if k' = k then none else get m k' := by
  induction m with
  | nil => simp [remove, get]
  | cons a t ih =>
    obtain ⟨a, b⟩ := a
    rw [wf_cons] at h
    simp only [remove]
    split
    · rename_i heq; subst heq
      split
      · rename_i h2; subst h2
        exact get_none_of_lt h.1
      · simp only [get]; rw [if_neg (by assumption)]
    · simp only [get]
      rw [ih h.2]
      split
      · rename_i h0 h1; subst h1; rw [if_neg (fun h => h0 h.symm)]
      · rfl

/-- Extensionality: a well-formed slot map is determined by its `get` function. -/
theorem ext {a b : SlotMap} (ha : WF a) (hb : WF b) (h : ∀ k, get a k = get b k) : a = b := by
  induction a generalizing b with
  | nil =>
    cases b with
    | nil => rfl
    | cons p t =>
      obtain ⟨x, y⟩ := p
      have := h x; simp [get] at this
  | cons p t ih =>
    obtain ⟨x, y⟩ := p
    cases b with
    | nil => have := h x; simp [get] at this
    | cons q u =>
      obtain ⟨x', y'⟩ := q
      rw [wf_cons] at ha hb
      have hx : x = x' := by
        have h1 := h x
        have h2 := h x'
        simp only [get] at h1 h2
        simp at h1 h2
        by_cases hlt : x < x'
        · rw [if_neg (by omega)] at h1
          have := get_none_of_lt (m := u) (k := x) (fun p hp => by have := hb.1 p hp; simp at this; omega)
          rw [this] at h1; simp at h1
        · by_cases hgt : x' < x
          · rw [if_neg (by omega)] at h2
            have := get_none_of_lt (m := t) (k := x') (fun p hp => by have := ha.1 p hp; simp at this; omega)
            rw [this] at h2; simp at h2
          · omega
      subst hx
      have hy : y = y' := by have := h x; simp [get] at this; exact this
      subst hy
      congr 1
      apply ih ha.2 hb.2
      intro k
      have := h k
      simp only [get] at this
      by_cases hk : k = x
      · subst hk
        rw [get_none_of_lt ha.1, get_none_of_lt hb.1]
      · rw [if_neg hk, if_neg hk] at this; exact this

/-! ### folds of `insert` -/

theorem wf_foldl_insert {α} (f : α → Nat × Nat) (l : List α) {init : SlotMap} (h : WF init) :
    WF (l.foldl (fun acc p => insert acc (f p).1 (f p).2) init) := by
  induction l generalizing init with
  | nil => exact h
  | cons a t ih => exact ih (wf_insert h _ _)

/-- the last pair with key `k` in `l`, if any -/
def lastMatch (l : List (Nat × Nat)) (k : Nat) : Option Nat :=
  l.foldl (fun acc p => if k = p.1 then some p.2 else acc) none

theorem get_foldl_insert {α} (f : α → Nat × Nat) (l : List α) {init : SlotMap} (h : WF init) (k : Nat) :
    get (l.foldl (fun acc p => insert acc (f p).1 (f p).2) init) k =
      l.foldl (fun acc p => if k = (f p).1 then some (f p).2 else acc) (get init k) := by
  induction l generalizing init with
  | nil => rfl
  | cons a t ih =>
    simp only [List.foldl_cons]
    rw [ih (wf_insert h _ _), get_insert h]

theorem wf_ofPairs (l : List (Nat × Nat)) : WF (ofPairs l) :=
  wf_foldl_insert (fun p => p) l wf_nil

theorem wf_inverse (m : SlotMap) : WF (inverse m) :=
  wf_foldl_insert (fun (p : Nat × Nat) => (p.2, p.1)) m wf_nil

theorem wf_identity (s : List Nat) : WF (identity s) :=
  wf_foldl_insert (fun (x : Nat) => (x, x)) s wf_nil

theorem wf_union {m : SlotMap} (h : WF m) (o : SlotMap) : WF (union m o) :=
  wf_foldl_insert (fun p => p) o h

end SV.SlotMap

namespace SV.SlotMap

theorem get_eq_some_iff {m : SlotMap} (h : WF m) (k v : Nat) : get m k = some v ↔ (k, v) ∈ m := by
  induction m with
  | nil => simp [get]
  | cons a t ih =>
    obtain ⟨a, b⟩ := a
    rw [wf_cons] at h
    simp only [get]
    split
    · rename_i heq; subst heq
      constructor
      · intro h1; simp at h1; simp [h1]
      · intro h1; simp at h1; rcases h1 with h1 | h1
        · simp [h1]
        · have := h.1 _ h1; simp at this
    · rename_i hne
      rw [ih h.2]; simp
      intro h1 _; exact absurd h1 hne

theorem get_isSome_iff {m : SlotMap} (h : WF m) (k : Nat) : (get m k).isSome ↔ k ∈ keys m := by
  constructor
  · intro h1
    obtain ⟨v, hv⟩ := Option.isSome_iff_exists.mp h1
    rw [get_eq_some_iff h] at hv
    exact List.mem_map.mpr ⟨(k, v), hv, rfl⟩
  · intro h1
    obtain ⟨p, hp, rfl⟩ := List.mem_map.mp h1
    have : get m p.1 = some p.2 := (get_eq_some_iff h _ _).mpr hp
    simp [this]

theorem wf_nodup {m : SlotMap} (h : WF m) : (keys m).Nodup := by
  induction m with
  | nil => simp [keys]
  | cons a t ih =>
    rw [wf_cons] at h
    simp only [keys, List.map_cons, List.nodup_cons]
    refine ⟨?_, ih h.2⟩
    intro hm
    obtain ⟨p, hp, he⟩ := List.mem_map.mp hm
    have := h.1 p hp; omega

/-- result of a "last match wins" fold: either untouched or the value of some matching element -/
theorem foldl_ite_cases {α} (f : α → Nat × Nat) (k : Nat) (l : List α) (init : Option Nat) :
    let r := l.foldl (fun acc p => if k = (f p).1 then some (f p).2 else acc) init
    (r = init ∧ ∀ p ∈ l, (f p).1 ≠ k) ∨ (∃ p ∈ l, (f p).1 = k ∧ r = some (f p).2) := by
  induction l generalizing init with
  | nil => simp
  | cons a t ih =>
    simp only [List.foldl_cons]
    rcases ih (if k = (f a).1 then some (f a).2 else init) with ⟨h1, h2⟩ | ⟨p, hp, h1, h2⟩
    · by_cases hk : k = (f a).1
      · right; refine ⟨a, by simp, hk.symm, ?_⟩
        rw [h1, if_pos hk]
      · left; simp only [if_neg hk] at h1 ⊢
        refine ⟨h1, ?_⟩
        intro p hp; simp at hp; rcases hp with hp | hp
        · subst hp; exact fun h => hk h.symm
        · exact h2 p hp
    · right; exact ⟨p, by simp [hp], h1, h2⟩

/-- Values are pairwise distinct (Prop form of `is_bijection`). -/
def Inj (m : SlotMap) : Prop := (valuesVec m).Nodup

theorem isBijection_iff (m : SlotMap) : isBijection m = true ↔ Inj m := by
  induction m with
  | nil => simp [isBijection, Inj, valuesVec]
  | cons a t ih =>
    obtain ⟨a, b⟩ := a
    simp only [isBijection, Inj, valuesVec, List.map_cons, List.nodup_cons, Bool.and_eq_true,
      Bool.not_eq_true', List.any_eq_false]
    simp only [Inj, valuesVec] at ih
    rw [ih]
    constructor
    · rintro ⟨h1, h2⟩
      refine ⟨?_, h2⟩
      intro hm
      obtain ⟨p, hp, he⟩ := List.mem_map.mp hm
      have := h1 p hp
      simp [he] at this
    · rintro ⟨h1, h2⟩
      refine ⟨?_, h2⟩
      intro p hp hbeq
      apply h1
      have : p.2 = b := by simpa using hbeq
      exact List.mem_map.mpr ⟨p, hp, this⟩

theorem inj_unique {m : SlotMap} (h : Inj m) {p q : Nat × Nat} (hp : p ∈ m) (hq : q ∈ m)
    (he : p.2 = q.2) : p = q := by
  induction m with
  | nil => simp at hp
  | cons a t ih =>
    simp only [Inj, valuesVec, List.map_cons, List.nodup_cons] at h
    simp at hp hq
    rcases hp with hp | hp <;> rcases hq with hq | hq
    · rw [hp, hq]
    · subst hp; exfalso; apply h.1; exact List.mem_map.mpr ⟨q, hq, he.symm⟩
    · subst hq; exfalso; apply h.1; exact List.mem_map.mpr ⟨p, hp, he⟩
    · exact ih h.2 hp hq

theorem get_inverse {m : SlotMap} (hw : WF m) (hi : Inj m) (x y : Nat) :
    get (inverse m) y = some x ↔ get m x = some y := by
  rw [get_eq_some_iff hw]
  unfold inverse
  rw [get_foldl_insert (fun (p : Nat × Nat) => (p.2, p.1)) m wf_nil]
  have hc := foldl_ite_cases (fun (p : Nat × Nat) => (p.2, p.1)) y m (get [] y)
  simp only at hc
  constructor
  · intro h
    rcases hc with ⟨h1, _⟩ | ⟨p, hp, h1, h2⟩
    · rw [h] at h1; simp [get] at h1
    · rw [h] at h2; simp at h2; subst h2; subst h1; exact hp
  · intro h
    rcases hc with ⟨_, h2⟩ | ⟨p, hp, h1, h2⟩
    · exact absurd rfl (h2 _ h)
    · have := inj_unique hi hp h h1
      subst this; exact h2

theorem get_inverse_none {m : SlotMap} (hw : WF m) (hi : Inj m) (y : Nat) :
    get (inverse m) y = none ↔ y ∉ valuesVec m := by
  constructor
  · intro h hm
    obtain ⟨p, hp, rfl⟩ := List.mem_map.mp hm
    have := (get_inverse hw hi p.1 p.2).mpr ((get_eq_some_iff hw _ _).mpr hp)
    rw [h] at this; simp at this
  · intro h
    cases hg : get (inverse m) y with
    | none => rfl
    | some x =>
      have := (get_inverse hw hi x y).mp hg
      rw [get_eq_some_iff hw] at this
      exact absurd (List.mem_map.mpr ⟨(x, y), this, rfl⟩) h

theorem inj_inverse {m : SlotMap} (hw : WF m) (hi : Inj m) : Inj (inverse m) := by
  have hwi := wf_inverse m
  unfold Inj valuesVec
  apply nodup_map_on
  · intro p hp q hq he
    have h1 := (get_inverse hw hi p.2 p.1).mp ((get_eq_some_iff hwi _ _).mpr hp)
    have h2 := (get_inverse hw hi q.2 q.1).mp ((get_eq_some_iff hwi _ _).mpr hq)
    rw [he, h2] at h1
    cases p; cases q; simp at h1 he ⊢; exact ⟨h1.symm, he⟩
  · exact nodup_of_map _ (wf_nodup hwi)

end SV.SlotMap

namespace SV.SlotMap

/-! ### composition -/

def cpStep (o : SlotMap) (acc : SlotMap) (p : Nat × Nat) : SlotMap :=
  match get o p.2 with
  | some z => insert acc p.1 z
  | none => acc

theorem composePartial_eq (m o : SlotMap) : composePartial m o = m.foldl (cpStep o) [] := rfl

theorem wf_cpStep {o acc : SlotMap} (h : WF acc) (p : Nat × Nat) : WF (cpStep o acc p) := by
  unfold cpStep; split
  · exact wf_insert h _ _
  · exact h

theorem wf_foldl_cpStep (o : SlotMap) (m : SlotMap) {acc : SlotMap} (h : WF acc) :
    WF (m.foldl (cpStep o) acc) := by
  induction m generalizing acc with
  | nil => exact h
  | cons a t ih => exact ih (wf_cpStep h a)

theorem wf_composePartial (m o : SlotMap) : WF (composePartial m o) :=
  wf_foldl_cpStep o m wf_nil

theorem get_foldl_cpStep (o : SlotMap) {m acc : SlotMap} (hm : WF m) (ha : WF acc) (x : Nat) :
    get (m.foldl (cpStep o) acc) x =
      match (get m x).bind (get o) with
      | some z => some z
      | none => get acc x := by
  induction m generalizing acc with
  | nil => simp [get]
  | cons p t ih =>
    obtain ⟨a, b⟩ := p
    rw [wf_cons] at hm
    simp only [List.foldl_cons]
    rw [ih hm.2 (wf_cpStep ha _)]
    by_cases hx : x = a
    · subst hx
      rw [get_none_of_lt hm.1]
      simp only [get, if_true, Option.bind_none, Option.bind_some]
      unfold cpStep
      cases hg : get o b with
      | none => simp
      | some z => simp [get_insert ha]
    · simp only [get, if_neg hx]
      have : get (cpStep o acc (a, b)) x = get acc x := by
        unfold cpStep; split
        · rw [get_insert ha, if_neg hx]
        · rfl
      rw [this]

theorem get_composePartial {m : SlotMap} (hm : WF m) (o : SlotMap) (x : Nat) :
    get (composePartial m o) x = (get m x).bind (get o) := by
  rw [composePartial_eq, get_foldl_cpStep o hm wf_nil]
  cases (get m x).bind (get o) <;> simp [get]

theorem compose_assoc {a b : SlotMap} (ha : WF a) (hb : WF b) (c : SlotMap) :
    composePartial (composePartial a b) c = composePartial a (composePartial b c) := by
  apply ext (wf_composePartial _ _) (wf_composePartial _ _)
  intro k
  rw [get_composePartial (wf_composePartial _ _), get_composePartial ha, get_composePartial ha]
  cases get a k with
  | none => rfl
  | some y => simp [get_composePartial hb]

/-! ### identity -/

theorem get_identity (s : List Nat) (x : Nat) :
    get (identity s) x = if x ∈ s then some x else none := by
  unfold identity
  rw [get_foldl_insert (fun (x : Nat) => (x, x)) s wf_nil]
  have hc := foldl_ite_cases (fun (x : Nat) => (x, x)) x s (get [] x)
  simp only at hc
  rcases hc with ⟨h1, h2⟩ | ⟨p, hp, h1, h2⟩
  · rw [h1]; have : x ∉ s := fun hm => h2 x hm rfl
    simp [this, get]
  · subst h1; rw [h2]; simp [hp]

theorem compose_inverse_self {m : SlotMap} (hw : WF m) (hi : Inj m) :
    composePartial m (inverse m) = identity (keys m) := by
  apply ext (wf_composePartial _ _) (wf_identity _)
  intro k
  rw [get_composePartial hw, get_identity]
  cases hg : get m k with
  | none =>
    have : k ∉ keys m := by
      intro hm; have := (get_isSome_iff hw k).mpr hm; rw [hg] at this; simp at this
    simp [this]
  | some y =>
    have : k ∈ keys m := (get_isSome_iff hw k).mp (by simp [hg])
    simp [this]
    exact (get_inverse hw hi k y).mpr hg

theorem inverse_inverse {m : SlotMap} (hw : WF m) (hi : Inj m) : inverse (inverse m) = m := by
  apply ext (wf_inverse _) hw
  intro k
  have hwi := wf_inverse m
  have hii := inj_inverse hw hi
  cases hg : get m k with
  | some y =>
    exact (get_inverse hwi hii y k).mpr ((get_inverse hw hi k y).mpr hg)
  | none =>
    cases hg2 : get (inverse (inverse m)) k with
    | none => rfl
    | some y =>
      have := (get_inverse hw hi k y).mp ((get_inverse hwi hii y k).mp hg2)
      rw [hg] at this; simp at this

/-! ### union / try_union / construction order -/

theorem get_foldl_insert_wf {o : SlotMap} (ho : WF o) {m : SlotMap} (hm : WF m) (k : Nat) :
    get (o.foldl (fun acc p => insert acc p.1 p.2) m) k =
      match get o k with
      | some v => some v
      | none => get m k := by
  induction o generalizing m with
  | nil => simp [get]
  | cons p t ih =>
    obtain ⟨a, b⟩ := p
    rw [wf_cons] at ho
    simp only [List.foldl_cons]
    rw [ih ho.2 (wf_insert hm _ _)]
    by_cases hk : k = a
    · subst hk; rw [get_none_of_lt ho.1]; simp [get, get_insert hm]
    · simp only [get, if_neg hk, get_insert hm]

theorem get_union {m o : SlotMap} (hm : WF m) (ho : WF o) (k : Nat) :
    get (union m o) k = match get o k with | some v => some v | none => get m k :=
  get_foldl_insert_wf ho hm k

/-- one step of `try_union` -/
def tuStep (acc : Option SlotMap) (p : Nat × Nat) : Option SlotMap :=
  match acc with
  | none => none
  | some a => match get a p.1 with
    | some z => if p.2 = z then some (insert a p.1 p.2) else none
    | none => some (insert a p.1 p.2)

theorem tryUnion_eq (m o : SlotMap) : tryUnion m o = o.foldl tuStep (some m) := rfl

theorem foldl_tuStep_none (o : SlotMap) : o.foldl tuStep none = none := by
  induction o with
  | nil => rfl
  | cons a t ih => simpa [tuStep] using ih

/-- `Compatible m o`: the two maps agree on every common key. -/
def Compatible (m o : SlotMap) : Prop := ∀ k a b, get m k = some a → get o k = some b → a = b

theorem tryUnion_aux {o : SlotMap} (ho : WF o) {m : SlotMap} (hm : WF m) :
    (Compatible m o → o.foldl tuStep (some m) = some (o.foldl (fun acc p => insert acc p.1 p.2) m)) ∧
    (¬ Compatible m o → o.foldl tuStep (some m) = none) := by
  induction o generalizing m with
  | nil => simp [Compatible, get]
  | cons p t ih =>
    obtain ⟨a, b⟩ := p
    rw [wf_cons] at ho
    simp only [List.foldl_cons]
    have hta : get t a = none := get_none_of_lt ho.1
    cases hg : get m a with
    | none =>
      have hstep : tuStep (some m) (a, b) = some (insert m a b) := by simp [tuStep, hg]
      rw [hstep]
      have hcomp : Compatible (insert m a b) t ↔ Compatible m ((a, b) :: t) := by
        unfold Compatible
        constructor
        · intro h k x y h1 h2
          simp only [get] at h2
          by_cases hk : k = a
          · subst hk; rw [hg] at h1; simp at h1
          · rw [if_neg hk] at h2
            exact h k x y (by rw [get_insert hm, if_neg hk]; exact h1) h2
        · intro h k x y h1 h2
          rw [get_insert hm] at h1
          by_cases hk : k = a
          · subst hk; rw [hta] at h2; simp at h2
          · rw [if_neg hk] at h1
            exact h k x y h1 (by simp only [get, if_neg hk]; exact h2)
      rw [← hcomp]
      exact ih ho.2 (wf_insert hm _ _)
    | some z =>
      by_cases hbz : b = z
      · subst hbz
        have hstep : tuStep (some m) (a, b) = some (insert m a b) := by simp [tuStep, hg]
        rw [hstep]
        have hcomp : Compatible (insert m a b) t ↔ Compatible m ((a, b) :: t) := by
          unfold Compatible
          constructor
          · intro h k x y h1 h2
            simp only [get] at h2
            by_cases hk : k = a
            · subst hk; rw [hg] at h1; simp at h1 h2; omega
            · rw [if_neg hk] at h2
              exact h k x y (by rw [get_insert hm, if_neg hk]; exact h1) h2
          · intro h k x y h1 h2
            rw [get_insert hm] at h1
            by_cases hk : k = a
            · subst hk; rw [hta] at h2; simp at h2
            · rw [if_neg hk] at h1
              exact h k x y h1 (by simp only [get, if_neg hk]; exact h2)
        rw [← hcomp]
        exact ih ho.2 (wf_insert hm _ _)
      · have hstep : tuStep (some m) (a, b) = none := by simp [tuStep, hg, hbz]
        rw [hstep, foldl_tuStep_none]
        constructor
        · intro hc
          have := hc a z b hg (by simp [get])
          exact absurd this.symm hbz
        · intro _; rfl

theorem tryUnion_some {m o : SlotMap} (hm : WF m) (ho : WF o) (hc : Compatible m o) :
    tryUnion m o = some (union m o) := (tryUnion_aux ho hm).1 hc

theorem tryUnion_none {m o : SlotMap} (hm : WF m) (ho : WF o) (hc : ¬ Compatible m o) :
    tryUnion m o = none := (tryUnion_aux ho hm).2 hc

end SV.SlotMap
