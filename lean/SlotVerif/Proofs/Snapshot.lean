import SlotVerif.Model.SnapInv
import SlotVerif.Proofs.SlotMap
/-! `find` on a consistent snapshot is idempotent — from the C19 algebra of slot maps. -/
namespace SV
namespace Snap
open SlotMap

theorem wf_of_wfb : ∀ (m : SlotMap), wfb m = true → WF m
  | [], _ => wf_nil
  | [_], _ => by simp [WF]
  | a :: b :: t, h => by
    simp only [wfb, Bool.and_eq_true, decide_eq_true_eq] at h
    have ih := wf_of_wfb (b :: t) h.2
    rw [wf_cons] at ih ⊢
    refine ⟨?_, wf_cons.mpr ih⟩
    intro p hp
    simp at hp
    rcases hp with hp | hp
    · subst hp; exact h.1
    · exact Nat.lt_trans h.1 (ih.1 p hp)

/-- a well-formed partial identity is idempotent under composition -/
theorem compose_partial_identity_self {m : SlotMap} (hw : WF m) (hid : ∀ p ∈ m, p.1 = p.2) :
    composePartial m m = m := by
  apply ext (wf_composePartial _ _) hw
  intro k
  rw [get_composePartial hw]
  cases hg : get m k with
  | none => rfl
  | some v =>
    have hm := (get_eq_some_iff hw k v).mp hg
    have := hid _ hm
    simp at this; subst this
    simpa using hg

/-- all maps in the union-find are well formed -/
def UfWF (s : Snap) : Prop := ∀ e ∈ s.uf, WF e.m
/-- a leader's entry is a partial identity -/
def LeaderId (s : Snap) : Prop :=
  ∀ (i : Nat) (e : AppId), s.uf[i]? = some e → e.id = i → ∀ p ∈ e.m, p.1 = p.2

theorem ufOK_sound {s : Snap} (h : ufOK s = true) : UfWF s ∧ LeaderId s := by
  unfold ufOK at h
  simp only [Bool.and_eq_true, List.all_eq_true] at h
  constructor
  · intro e he; exact wf_of_wfb _ (h.1 e he)
  · unfold LeaderId
    intro i e hi hid p hp
    have hlt : i < s.uf.length := by
      rcases List.getElem?_eq_some_iff.mp hi with ⟨hlt, _⟩; exact hlt
    have := h.2 i (List.mem_range.mpr hlt)
    rw [hi] at this
    simp only [hid, beq_self_eq_true, if_true, List.all_eq_true] at this
    simpa using this p hp

/-- shape of a `ufGet` result: the leader's own entry, possibly pre-composed with a well-formed map -/
theorem ufGet_form {s : Snap} (hw : UfWF s) : ∀ (fuel i : Nat) (r : AppId), ufGet s fuel i = some r →
    ∃ e, s.uf[r.id]? = some e ∧ e.id = r.id ∧ (r.m = e.m ∨ ∃ X, WF X ∧ r.m = composePartial e.m X)
  | 0, _, _, h => by simp [ufGet] at h
  | fuel + 1, i, r, h => by
    simp only [ufGet] at h
    cases hentry : s.uf[i]? with
    | none => rw [hentry] at h; simp at h
    | some entry =>
      rw [hentry] at h
      simp only at h
      by_cases hid : entry.id = i
      · rw [if_pos hid] at h
        simp at h; subst h
        exact ⟨entry, by rw [hid]; exact hentry, rfl, Or.inl rfl⟩
      · rw [if_neg hid] at h
        cases hl : ufGet s fuel entry.id with
        | none => rw [hl] at h; simp at h
        | some l =>
          rw [hl] at h
          simp at h; subst h
          obtain ⟨e, he1, he2, he3⟩ := ufGet_form hw fuel entry.id l hl
          have hwentry : WF entry.m := hw entry (List.mem_of_getElem? hentry)
          have hwe : WF e.m := hw e (List.mem_of_getElem? he1)
          refine ⟨e, he1, he2, Or.inr ?_⟩
          rcases he3 with h1 | ⟨X, hX, h1⟩
          · exact ⟨entry.m, hwentry, by simp [h1]⟩
          · refine ⟨composePartial X entry.m, wf_composePartial _ _, ?_⟩
            simp only [h1]
            exact compose_assoc hwe hX entry.m

theorem ufGet_leader {s : Snap} {j : Nat} {e : AppId} (h : s.uf[j]? = some e) (hid : e.id = j) (fuel : Nat) :
    ufGet s (fuel + 1) j = some e := by
  simp [ufGet, h, hid]

/-- **canonicalising an invocation twice equals canonicalising it once**, for every invocation on
every state whose union-find passes `ufOK` -/
theorem find_idem {s : Snap} (hok : ufOK s = true) {a b : AppId} (h : find s a = some b) :
    find s b = some b := by
  obtain ⟨hw, hlid⟩ := ufOK_sound hok
  unfold find at h ⊢
  cases hr : ufGet s (s.uf.length + 1) a.id with
  | none => rw [hr] at h; simp at h
  | some r =>
    rw [hr] at h
    simp at h; subst h
    obtain ⟨e, he1, he2, he3⟩ := ufGet_form hw _ _ r hr
    simp only
    rw [ufGet_leader he1 he2]
    simp only [Option.map_some, he2]
    have hwe : WF e.m := hw e (List.mem_of_getElem? he1)
    have hidem : composePartial e.m e.m = e.m := compose_partial_identity_self hwe (hlid _ e he1 he2)
    have hwr : WF r.m := by
      rcases he3 with h1 | ⟨X, _, h1⟩
      · rw [h1]; exact hwe
      · rw [h1]; exact wf_composePartial _ _
    have hfix : composePartial e.m r.m = r.m := by
      rcases he3 with h1 | ⟨X, hX, h1⟩
      · rw [h1, hidem]
      · rw [h1, ← compose_assoc hwe hwe X, hidem]
    rw [← compose_assoc hwe hwr a.m, hfix]

end Snap
end SV
