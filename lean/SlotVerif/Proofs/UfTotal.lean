import SlotVerif.Proofs.UfWrite
/-!
# The fixed fuel of `find` always suffices

`Snap.find` walks the union-find chain with fuel `uf.length + 1`.  Here: whenever an id resolves with *some* amount of
fuel it resolves with fuel `uf.length` (the ids on a resolving chain are pairwise distinct — a repeated id could be cut out —
and there are only `uf.length` of them: pigeonhole).  Hence `Total` (every id resolves with the fixed fuel) is preserved by
every valid write (`write_total`, `writes_total`): **after any sequence of allocations, merges and shrinks, `find`
terminates on every id ever allocated**.
-/
namespace SV
namespace Snap
open SlotMap

/-- the chain of ids walked from `j` to its leader, with the resolved invocation -/
inductive Chain (uf : List AppId) : List Nat → Nat → AppId → Prop
  | leader {j : Nat} {e : AppId} : uf[j]? = some e → e.id = j → Chain uf [j] j e
  | step {j : Nat} {e l : AppId} {p : List Nat} : uf[j]? = some e → e.id ≠ j → Chain uf p e.id l →
      Chain uf (j :: p) j { id := l.id, m := composePartial l.m e.m }

theorem Chain.get {uf : List AppId} {p : List Nat} {j : Nat} {r : AppId} (h : Chain uf p j r) :
    ufGetL uf p.length j = some r := by
  induction h with
  | leader he hid => simp [ufGetL, he, hid]
  | @step j e l p he hid _ ih =>
    simp only [List.length_cons, ufGetL, he, hid, if_false, ih]

theorem Chain.bounded {uf : List AppId} {p : List Nat} {j : Nat} {r : AppId} (h : Chain uf p j r) :
    ∀ x ∈ p, x < uf.length := by
  induction h with
  | leader he _ =>
    intro x hx; simp at hx; subst hx
    exact (List.getElem?_eq_some_iff.mp he).1
  | step he _ _ ih =>
    intro x hx
    rcases List.mem_cons.mp hx with rfl | hx'
    · exact (List.getElem?_eq_some_iff.mp he).1
    · exact ih x hx'

theorem Chain.head {uf : List AppId} {p : List Nat} {j : Nat} {r : AppId} (h : Chain uf p j r) : j ∈ p := by
  cases h <;> simp

/-- every id on a chain has a chain of its own, a suffix of the first -/
theorem Chain.suffix {uf : List AppId} {p : List Nat} {j : Nat} {r : AppId} (h : Chain uf p j r) :
    ∀ x ∈ p, ∃ q r', Chain uf q x r' ∧ q <:+ p := by
  induction h with
  | @leader j e he hid =>
    intro x hx; simp at hx; subst hx
    exact ⟨[x], e, .leader he hid, List.suffix_refl _⟩
  | @step j e l p he hid hc ih =>
    intro x hx
    rcases List.mem_cons.mp hx with rfl | hx'
    · exact ⟨x :: p, _, .step he hid hc, List.suffix_refl _⟩
    · obtain ⟨q, r', hq, hs⟩ := ih x hx'
      exact ⟨q, r', hq, hs.trans (List.suffix_cons _ _)⟩

/-- a resolving walk can be taken along pairwise distinct ids -/
theorem chain_of_get {uf : List AppId} : ∀ (f j : Nat) (r : AppId), ufGetL uf f j = some r →
    ∃ p, Chain uf p j r ∧ p.Nodup
  | 0, _, _, h => by simp [ufGetL] at h
  | f + 1, j, r, h => by
    rw [ufGetL] at h
    cases he : uf[j]? with
    | none => rw [he] at h; simp at h
    | some e =>
      rw [he] at h; simp only at h
      by_cases hid : e.id = j
      · simp only [hid, if_true] at h
        have : e = r := Option.some.inj h
        subst this
        exact ⟨[j], .leader he hid, by simp⟩
      · simp only [hid, if_false] at h
        cases hl : ufGetL uf f e.id with
        | none => rw [hl] at h; simp at h
        | some l =>
          rw [hl] at h
          have hr : r = { id := l.id, m := composePartial l.m e.m } := (Option.some.inj h).symm
          obtain ⟨p, hp, hnd⟩ := chain_of_get f e.id l hl
          by_cases hj : j ∈ p
          · -- the walk from `e.id` comes back to `j`: the part of it from `j` on is a shorter walk for `j`
            obtain ⟨q, r', hq, hs⟩ := hp.suffix j hj
            have h1 := hq.get
            have h2 : ufGetL uf (f + 1) j = some r := by
              rw [ufGetL, he]; simp only [hid, if_false, hl]; rw [hr]
            have : r' = r := ufGetL_det h1 h2
            subst this
            exact ⟨q, hq, hnd.sublist hs.sublist⟩
          · exact ⟨j :: p, by rw [hr]; exact .step he hid hp, List.nodup_cons.mpr ⟨hj, hnd⟩⟩

/-- pigeonhole: a duplicate-free list of numbers below `n` has at most `n` elements -/
theorem nodup_bounded_length : ∀ (n : Nat) (l : List Nat), l.Nodup → (∀ x ∈ l, x < n) → l.length ≤ n
  | 0, l, _, hb => by
    cases l with
    | nil => simp
    | cons a t => exact absurd (hb a (by simp)) (by omega)
  | n + 1, l, hnd, hb => by
    -- remove `n` (it occurs at most once), the rest lies below `n`
    have hnd' : (l.erase n).Nodup := hnd.erase n
    have hb' : ∀ x ∈ l.erase n, x < n := by
      intro x hx
      have hxl : x ∈ l := List.mem_of_mem_erase hx
      have hne : x ≠ n := by
        intro hxn; subst hxn
        exact (List.Nodup.not_mem_erase hnd) hx
      have := hb x hxl
      omega
    have ih := nodup_bounded_length n (l.erase n) hnd' hb'
    by_cases hn : n ∈ l
    · rw [List.length_erase_of_mem hn] at ih; omega
    · rw [List.erase_of_not_mem hn] at ih; omega

/-- **whatever resolves at all resolves with fuel `uf.length`** -/
theorem get_fixed_fuel {uf : List AppId} {f j : Nat} {r : AppId} (h : ufGetL uf f j = some r) :
    ufGetL uf uf.length j = some r := by
  obtain ⟨p, hp, hnd⟩ := chain_of_get f j r h
  exact ufGetL_le hp.get (nodup_bounded_length _ p hnd hp.bounded)

theorem length_ufSet_ge (uf : List AppId) (i : Nat) (e : AppId) : uf.length ≤ (ufSet uf i e).length := by
  unfold ufSet; split <;> simp

/-- **`find` stays total across a valid write**: if every id resolved with the fixed fuel before, every id — the newly
allocated one included — does afterwards -/
theorem write_total {uf : List AppId} (hw : UfWF' uf) (hl : LeaderId' uf) {i : Nat} {e : AppId}
    (hv : validWrite uf i e = true) (ht : Total uf) : Total (ufSet uf i e) := by
  intro j hj
  by_cases hjl : j < uf.length
  · obtain ⟨r, hr⟩ := ht j hjl
    obtain ⟨r', h1, _⟩ := write_redirect hw hl hv hr
    exact ⟨r', ufGetL_succ _ _ _ (get_fixed_fuel h1)⟩
  · -- only an allocation makes the table longer; the new entry is a leader
    obtain ⟨_, hc⟩ := validWrite_cases hv
    cases hc with
    | alloc hlen hid hpid =>
      have hset : ufSet uf i e = uf ++ [e] := by unfold ufSet; simp [hlen]
      rw [hset] at hj ⊢
      have hji : j = uf.length := by simp at hj; omega
      refine ⟨e, ?_⟩
      have hget : (uf ++ [e])[j]? = some e := by rw [hji]; simp
      have h1 : ufGetL (uf ++ [e]) 1 j = some e := by
        simp [ufGetL, hget, hid, hlen, hji]
      exact ufGetL_le h1 (by simp)
    | shrink old hlen hold _ _ _ _ =>
      have : (ufSet uf i e).length = uf.length := by unfold ufSet; simp [hlen]
      omega
    | merge old tgt hlen hold _ _ _ _ _ =>
      have : (ufSet uf i e).length = uf.length := by unfold ufSet; simp [hlen]
      omega

/-- **for every sequence of valid writes, starting from any total table (the empty one in particular)** -/
theorem writes_total : ∀ (ws : List (Nat × AppId)) (uf uf' : List AppId), UfWF' uf → LeaderId' uf → Total uf →
    applyWrites uf ws = some uf' → Total uf'
  | [], uf, uf', _, _, ht, h => by
    simp only [applyWrites, Option.some.injEq] at h; subst h; exact ht
  | w :: ws, uf, uf', hw, hl, ht, h => by
    simp only [applyWrites] at h
    split at h
    · rename_i hv
      obtain ⟨hw1, hl1⟩ := write_inv hw hl hv
      exact writes_total ws _ uf' hw1 hl1 (write_total hw hl hv ht) h
    · cases h

theorem total_nil : Total [] := by intro j hj; simp at hj
theorem ufWF_nil : UfWF' [] := by intro e he; simp at he
theorem leaderId_nil : LeaderId' [] := by intro i e h; simp at h

end Snap
end SV
