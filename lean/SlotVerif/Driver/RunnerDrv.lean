import SlotVerif.Model.Runner
import SlotVerif.Driver.Util
/-! `runner` protocol (C15): `runner <run|eqsat> <iterLimit> <nodeLimit>;p1,h-,n12,t0;...` → `<stop>:<iterations>` -/
namespace SV.Drv
open SV SV.Runner

def parseObs (s : String) : Obs :=
  let parts := s.splitOn ","
  let get (pfx : String) : String := ((parts.find? (·.startsWith pfx)).map (fun x => (x.drop pfx.length).toString)).getD ""
  { progress := get "p" == "1",
    hookErr := if get "h" == "-" then none else some (nat! (get "h")),
    nodes := nat! (get "n"),
    overTime := get "t" == "1" }

def showStop : Stop → String
  | .saturated => "Saturated" | .iterLimit => "IterationLimit" | .timeLimit => "TimeLimit"
  | .nodeLimit => "NodeLimit" | .other h => s!"Other({h})"

def runnerRun (body : String) : String :=
  match body.splitOn ";" with
  | hdr :: obsS =>
    let obs := (obsS.filter (· ≠ "")).map parseObs
    match words hdr with
    | [mode, il, nl] =>
      let r := if mode == "eqsat" then runEqsat (nat! il) 0 obs else run ⟨nat! il, nat! nl⟩ 0 obs
      match r with
      | some (s, n) => s!"{showStop s}:{n}"
      | none => "no-stop"
    | _ => "bad-header"
  | [] => "bad-case"

end SV.Drv
