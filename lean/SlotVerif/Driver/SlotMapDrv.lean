import SlotVerif.Model.SlotMap
import SlotVerif.Driver.Util
/-! `sm` protocol: one case per line, ops separated by `;`, four registers, a fresh counter. -/
namespace SV.Drv
open SV SV.SlotMap

structure SmState where
  regs : List SlotMap := [[], [], [], []]
  fresh : Nat := 1

def SmState.r (s : SmState) (i : Nat) : SlotMap := s.regs.getD i []
def SmState.set (s : SmState) (i : Nat) (m : SlotMap) : SmState := { s with regs := s.regs.set i m }

def pairsOf : List String → List (Nat × Nat)
  | a :: b :: t => (nat! a, nat! b) :: pairsOf t
  | _ => []

def smStep (s : SmState) (op : List String) : SmState × String :=
  match op with
  | ["ins", r, k, v] => (s.set (nat! r) (insert (s.r (nat! r)) (nat! k) (nat! v)), "ok")
  | ["rem", r, k] => (s.set (nat! r) (remove (s.r (nat! r)) (nat! k)), "ok")
  | ["get", r, k] => (s, showOpt (get (s.r (nat! r)) (nat! k)))
  | ["has", r, k] => (s, showBool (containsKey (s.r (nat! r)) (nat! k)))
  | ["idx", r, k] => (s, match index (s.r (nat! r)) (nat! k) with | some v => toString v | none => "panic")
  | ["inv", r, d] => (s.set (nat! d) (inverse (s.r (nat! r))), "ok")
  | ["cp", a, b, d] => (s.set (nat! d) (composePartial (s.r (nat! a)) (s.r (nat! b))), "ok")
  | ["cf", a, b, d] =>
    let (m, f) := composeFresh (s.r (nat! a)) (s.r (nat! b)) s.fresh
    ({ s.set (nat! d) m with fresh := f }, "ok")
  | "idn" :: d :: ks => (s.set (nat! d) (identity (sortDedup (ks.map nat!))), "ok")
  | "bff" :: d :: ks =>
    let (m, f) := bijectionFromFreshTo (sortDedup (ks.map nat!)) s.fresh
    ({ s.set (nat! d) m with fresh := f }, "ok")
  | "ofp" :: d :: ps => (s.set (nat! d) (ofPairs (pairsOf ps)), "ok")
  | ["un", a, b, d] => (s.set (nat! d) (union (s.r (nat! a)) (s.r (nat! b))), "ok")
  | ["tu", a, b, d] =>
    match tryUnion (s.r (nat! a)) (s.r (nat! b)) with
    | some m => (s.set (nat! d) m, "some")
    | none => (s, "none")
  | ["nf", k] =>
    -- `Slot::named("f<k>")`: the fresh-kind slot `4k+1`; the fresh counter moves past it (`Slot.named`, C17)
    let c := 4 * nat! k + 1
    ({ s with fresh := if s.fresh ≤ c then c + 4 else s.fresh }, toString c)
  | ["isb", r] => (s, showBool (isBijection (s.r (nat! r))))
  | ["isp", r] => (s, showBool (isPerm (s.r (nat! r))))
  | ["keys", r] => (s, showList (sortDedup (keys (s.r (nat! r)))))
  | ["vals", r] => (s, showList (sortDedup (valuesVec (s.r (nat! r)))))
  | ["valsv", r] => (s, showList (valuesVec (s.r (nat! r))))
  | ["len", r] => (s, toString (s.r (nat! r)).length)
  | ["iter", r] => (s, showPairs (s.r (nat! r)))
  | ["eq", a, b] => (s, showBool (s.r (nat! a) == s.r (nat! b)))
  | ["cmp", a, b] => (s, match cmpLex (s.r (nat! a)) (s.r (nat! b)) with | .lt => "lt" | .eq => "eq" | .gt => "gt")
  | ["heq", _, _] => (s, "ok")
  | ["wf", r] => (s, showBool (wfb (s.r (nat! r))))
  | _ => (s, "bad-op")

def smRun (body : String) : String :=
  let ops := (body.splitOn ";").map words |>.filter (· ≠ [])
  let (_, outs) := ops.foldl (fun (acc : SmState × List String) op =>
    let (s', o) := smStep acc.1 op; (s', o :: acc.2)) ({}, [])
  ";".intercalate outs.reverse

end SV.Drv
