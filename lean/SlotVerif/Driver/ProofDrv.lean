import SlotVerif.Model.ProofCheck
import SlotVerif.Driver.EgDrv
/-! `expl` protocol (C07): an exported proof DAG is re-checked node by node by `PC.checkNode`.
Everything in this file is parsing and heuristics (which terms to put in the universe, which pairs to
propose); acceptance itself is `PC.accepts`, sound for every heuristic (`Props/C07.lean`). -/
namespace SV.Drv
open SV SV.Term SV.PC

/-- term with every free name replaced by 0: two terms match up to renaming only if these agree -/
def skel (t : Term) : String := Term.key (mapFree (fun _ => 0) t)

/-- add `t` and everything below it; children under binders are opened with the names `congrOK` would
use when `t` is compared with itself -/
partial def addClosure (pool : List Nat) (u : Uni) (t : Term) : Uni :=
  if u.index.contains (Term.key t) then u else
  let u := u.add t 0
  match t with
  | .mk n cs =>
    let names := Orc.freshNames pool t t ((childDepths n).foldl max 0)
    ((childDepths n).zip cs).foldl (fun u (d, c) => addClosure pool u (openMany (names.take d) c)) u

/-- for two binder terms with the same node: the openings `congrOK` uses when comparing *them* -/
def addPairOpenings (pool : List Nat) (u : Uni) : Uni :=
  let binders := u.univ.toList.filter fun t => match t with | .mk n _ => (childDepths n).foldl max 0 > 0
  binders.foldl (fun u t =>
    binders.foldl (fun u t2 =>
      match t, t2 with
      | .mk n cs, .mk m _ =>
        if decide (n = m) then
          let names := Orc.freshNames pool t t2 ((childDepths n).foldl max 0)
          ((childDepths n).zip cs).foldl (fun u (d, c) => addClosure pool u (openMany (names.take d) c)) u
        else u) u) u

/-- all instances `(σa, σb)` of an equation such that `σ` maps side `s` onto the target `t`;
the names private to the other side range over every injective choice in the pool -/
def instancesOnto (pool : List Nat) (a b : Term) (sIsLeft : Bool) (t : Term) : List (Term × Term) :=
  let s := if sIsLeft then a else b
  match Orc.buildRen (freeOcc s) (freeOcc t) [] with
  | none => []
  | some σ0 =>
    if !(Term.beq (mapFree (Orc.applyRen σ0) s) t) then [] else
    let other := if sIsLeft then b else a
    let priv := (Orc.dedupL (freeOcc other)).filter fun x => !(σ0.any (·.1 == x))
    let avail := (Orc.dedupL pool).filter fun y => !isBvar y && !(σ0.any (·.2 == y))
    (injections priv avail).map fun ext =>
      let σ := ext ++ σ0
      (mapFree (Orc.applyRen σ) a, mapFree (Orc.applyRen σ) b)

structure UniOut where
  pool : List Nat
  uni : Uni
  truncated : Bool

def instanceCap : Nat := 600

/-- the instance of `b` whose names not fixed by `σ0` go to the first unused spares -/
def canonicalExt (spares : List Nat) (σ0 : List (Nat × Nat)) (other : Term) : List (Nat × Nat) :=
  let priv := (Orc.dedupL (freeOcc other)).filter fun x => !(σ0.any (·.1 == x))
  let avail := spares.filter fun y => !(σ0.any (·.2 == y))
  (priv.zip avail) ++ σ0

def matchOnto (s t : Term) : Option (List (Nat × Nat)) :=
  match Orc.buildRen (freeOcc s) (freeOcc t) [] with
  | some σ => if Term.beq (mapFree (Orc.applyRen σ) s) t then some σ else none
  | none => none

/-- transitivity's middle term: `l = σ1 a`, `r = σ2 d`, and the common instance of `b` and `c` whose names
are fixed by `σ1` where they occur in `a`, by `σ2` where they occur in `d`, and are spares elsewhere -/
def middleTerm (spares : List Nat) (a b c d l r : Term) : Option Term :=
  match matchOnto a l, matchOnto d r with
  | some σ1, some σ2 =>
    let ob := freeOcc b
    let oc := freeOcc c
    if ob.length != oc.length then none else
    let pos := ob.zip oc
    let val := fun (σ : List (Nat × Nat)) (x : Nat) => (σ.find? (·.1 == x)).map (·.2)
    -- propagate determined values until nothing changes, then give one undetermined position a spare
    let propagate := fun (st : List (Nat × Nat) × List (Nat × Nat) × Bool) =>
      pos.foldl (fun (st : List (Nat × Nat) × List (Nat × Nat) × Bool) (x, y) =>
        let (s1, s2, ok) := st
        match val s1 x, val s2 y with
        | some u, some v => (s1, s2, ok && u == v)
        | some u, none => (s1, (y, u) :: s2, ok)
        | none, some v => ((x, v) :: s1, s2, ok)
        | none, none => st) st
    let rec loop (fuel : Nat) (st : List (Nat × Nat) × List (Nat × Nat) × Bool) (sp : List Nat) :
        List (Nat × Nat) × List (Nat × Nat) × Bool :=
      match fuel with
      | 0 => st
      | fuel + 1 =>
        let st := propagate (propagate st)
        let (s1, s2, ok) := st
        match pos.find? (fun (x, y) => (val s1 x).isNone && (val s2 y).isNone) with
        | none => st
        | some (x, y) =>
          match sp with
          | [] => (s1, s2, false)
          | f :: sp => loop fuel ((x, f) :: s1, (y, f) :: s2, ok) sp
    let used := (σ1 ++ σ2).map (·.2)
    let (s1, _, ok) := loop (pos.length + 1) (σ1, σ2, true) (spares.filter fun f => !used.contains f)
    if ok then some (mapFree (Orc.applyRen s1) b) else none
  | _, _ => none

/-- the universe for one node: the claim, its sub-terms, transitivity's middle terms, and canonical instances of
the given equations onto those; `exhaustive` adds every instance whose private names range over the whole pool -/
def uniCore (exhaustive : Bool) (nspare : Nat) (E : List (Term × Term)) (l r : Term) : UniOut :=
  let names := Orc.dedupL ((freeOcc l ++ freeOcc r).filter fun c => !isBvar c)
  let spares := (List.range nspare).map fun i => 4 * (900 + i)
  let pool := names ++ spares
  let u0 := addClosure pool (addClosure pool {} l) r
  let both := E ++ E.map fun (a, b) => (b, a)
  -- middle terms
  let u0 := both.foldl (fun u (a, b) => both.foldl (fun u (c, d) =>
      let u := match middleTerm spares a b c d l r with | some m => addClosure pool u m | none => u
      u) u) u0
  let u0 := addPairOpenings pool u0
  let round := fun (acc : Uni × Bool) (_ : Nat) =>
    let (u, tr) := acc
    let targets := u.univ.toList
    let sk := targets.map skel
    both.foldl (fun (acc : Uni × Bool) (a, b) =>
      let ska := skel a
      (targets.zip sk).foldl (fun (acc : Uni × Bool) (t, st) =>
        let (u, tr) := acc
        if st != ska then acc else
        if u.univ.size > instanceCap then (u, true) else
        let canon := match matchOnto a t with
          | some σ0 => [mapFree (Orc.applyRen (canonicalExt spares σ0 b)) b]
          | none => []
        let more := if exhaustive then (instancesOnto pool a b true t).map (·.2) else []
        ((canon ++ more).foldl (fun u x => addClosure pool u x) u, tr)) acc) (u, tr)
  let (u1, tr) := (if exhaustive then [0, 1] else [0]).foldl round (u0, false)
  let u2 := addPairOpenings pool u1
  { pool := pool, uni := u2, truncated := tr }

/-- proposals: in the first round every pair that looks like an instance of an equation (checked by `axOK`),
then congruence candidates by signature -/
def proofGen (o : Orc) : List (Nat × Nat) :=
  let fresh := (List.range o.univ.size).all fun i => o.find i == i
  let ax := if !fresh then [] else
    let sk := o.univ.toList.map skel
    let idx := (List.range o.univ.size).zip sk
    o.E.flatMap fun (a, b) =>
      let (ska, skb) := (skel a, skel b)
      let ls := idx.filter (·.2 == ska)
      let rs := idx.filter (·.2 == skb)
      ls.flatMap fun (i, _) => rs.filterMap fun (j, _) =>
        match o.univ[i]?, o.univ[j]? with
        | some t, some u => if Orc.instOf a b t u then some (i, j) else none
        | _, _ => none
  ax ++ congrCands o

def proofHeur (exhaustive : Bool) (nspare : Nat) : Heur :=
  { uni := fun E l r => let o := uniCore exhaustive nspare E l r; (o.pool, o.uni.univ, o.uni.index),
    gen := proofGen,
    fuel := 12 }

/-! ### matching a rule's left side against a leaf (heuristic; the instance is re-computed by `PC.ruleInstance`) -/

/-- match the fields of a pattern node against the fields of a term node: same structure, slots related by `σ` -/
def matchField : Field → Field → List (Nat × Nat) → Option (List (Nat × Nat))
  | .slot a, .slot b, σ =>
    (match σ.find? (·.1 == a) with
     | some p => if p.2 == b then some σ else none
     | none => some ((a, b) :: σ))
  | .app _, .app _, σ => some σ
  | .lit u, .lit v, σ => if u == v then some σ else none
  | .bind a f, .bind b g, σ =>
    (match σ.find? (·.1 == a) with
     | some p => if p.2 == b then matchField f g σ else none
     | none => matchField f g ((a, b) :: σ))
  | _, _, _ => none

def matchFields : List Field → List Field → List (Nat × Nat) → Option (List (Nat × Nat))
  | [], [], σ => some σ
  | f :: fs, g :: gs, σ => (matchField f g σ).bind (matchFields fs gs)
  | _, _, _ => none

/-- heuristic matcher (untrusted): pattern (named, with pvar leaves) against a named term -/
partial def matchT (p t : Term) (acc : List (String × Term) × List (Nat × Nat)) : Option (List (String × Term) × List (Nat × Nat)) :=
  match pvarName p with
  | some a =>
    (match acc.1.find? (·.1 == a) with
     | some q => if Term.beq q.2 t then some acc else some acc   -- repeated variable: the instance check decides
     | none => some ((a, t) :: acc.1, acc.2))
  | none =>
    match p, t with
    | .mk n cs, .mk m ds =>
      if n.v != m.v || cs.length != ds.length then none else
      match matchFields n.fields m.fields acc.2 with
      | none => none
      | some σ => (cs.zip ds).foldl (fun a (c, d) => a.bind (matchT c d)) (some (acc.1, σ))


/-! ### parsing -/

def parseEqn (s : String) : Term × Term :=
  match s.splitOn "~" with
  | [a, b] => (close (parseTerm a), close (parseTerm b))
  | _ => (close (parseTerm ""), close (parseTerm ""))

def parseRule : String → Option Rule
  | "explicit" => some .explicit | "refl" => some .refl | "symm" => some .symm
  | "trans" => some .trans | "congr" => some .congr | _ => none

def parsePNode (s : String) : Option PNode :=
  match s.splitOn ":" with
  | [rule, prem, label, eqn] =>
    match parseRule rule with
    | some r =>
      let (l, rr) := parseEqn eqn
      some { rule := r, premises := if prem = "" then [] else (prem.splitOn ",").map nat!,
             label := if label = "-" then none else some label, l := l, r := rr }
    | none => none
  | _ => none

def parseAsserted (s : String) : Option Asserted :=
  match s.splitOn "=" with
  | [lb, eqn] => let (l, r) := parseEqn eqn; some { label := lb, l := l, r := r }
  | _ => none

def items (s : String) : List String := if s = "" then [] else s.splitOn "#"

/-- the named (not yet locally nameless) sides of a node's claim -/
def parseEqnNamed (s : String) : Term × Term :=
  match s.splitOn "~" with
  | [a, b] => (parseTerm a, parseTerm b)
  | _ => (parseTerm "", parseTerm "")

def parseRuleDef (s : String) : Option RuleDef :=
  match s.splitOn "=" with
  | [nm, eqn] => let (l, r) := parseEqnNamed eqn; some { name := nm, lhs := l, rhs := r }
  | _ => none

/-- `expl <ops>|<asserted>|<nodes>|<roots>[|<rules>]` → `nodes:ok|roots:111|slow:k|rl:a/b`, or `nodes:bad<i>` / `nodes:und<i>`
for the first node that is not accepted (`und`: the universe was cut at the size cap, or the node is a leaf of a rule
application that is not a literal instance of the rule — see DESIGN §9.3 C07 — so the rejection means nothing).
`rl:a/b` = leaves of rule applications accepted / not decided. -/
def explRun (body : String) : String :=
  let secs := body.splitOn "|"
  match secs with
  | _ :: aS :: nS :: rS :: restSecs =>
    let rules := (items (restSecs.headD "")).filterMap parseRuleDef
    let A0 := (items aS).filterMap parseAsserted
    let nodeStrs := items nS
    let nodesO := nodeStrs.map parsePNode
    if nodesO.any (·.isNone) || A0.length != (items aS).length then "bad-case" else
    let nodes0 := nodesO.filterMap id
    -- leaves of rule applications: the rule instance is computed by `PC.ruleInstance` from a matched substitution and
    -- becomes an asserted equation with a label of its own
    let named := nodeStrs.map fun ns => match ns.splitOn ":" with | [_, _, _, eqn] => parseEqnNamed eqn | _ => parseEqnNamed ""
    let step := fun (acc : List PNode × List Asserted × List Nat × Nat) (x : PNode × (Term × Term)) =>
      let (out, A, ruleLeaves, k) := acc
      let (n, nm) := x
      match n.rule, n.label with
      | .explicit, some lb =>
        (match rules.find? (·.name == lb) with
         | some rd =>
           let lb' := s!"{lb}#{k}"
           let inst := (matchT rd.lhs nm.1 ([], [])).bind fun (θ, σ) => ruleInstance rd θ σ
           -- with all slot names erased the leaf must still be an instance of the rule: otherwise it is no instance in any reading
           let z := fun (t : Term) => renameAllT (fun _ => 0) t
           let skelOK := match matchT (z rd.lhs) (z nm.1) ([], []) with
             | some (θ0, _) => Term.beq (instT θ0 (z rd.lhs)) (z nm.1) && Term.beq (instT θ0 (z rd.rhs)) (z nm.2)
             | none => false
           let ruleLeaves := if skelOK then k :: ruleLeaves else ruleLeaves
           (match inst with
            | some (il, ir) => (out ++ [{ n with label := some lb' }], A ++ [{ label := lb', l := il, r := ir }], ruleLeaves, k + 1)
            | none => (out ++ [{ n with label := some lb' }], A, ruleLeaves, k + 1))
         | none => (out ++ [n], A, ruleLeaves, k + 1))
      | _, _ => (out ++ [n], A, ruleLeaves, k + 1)
    let (nodes, A, ruleLeaves, _) := (nodes0.zip named).foldl step ([], A0, [], 0)
    -- node by node with the small pool, the larger pool only for nodes the small one does not settle
    let rec go (i : Nat) (slow rlOk rlUnd : Nat) (rest : List PNode) : Option (Nat × Bool) × Nat × Nat × Nat :=
      match rest with
      | [] => (none, slow, rlOk, rlUnd)
      | n :: rest =>
        let isRl := ruleLeaves.contains i
        if checkNode (proofHeur false 4) A nodes i n then go (i + 1) slow (if isRl then rlOk + 1 else rlOk) rlUnd rest
        else if checkNode (proofHeur true 3) A nodes i n || checkNode (proofHeur true 5) A nodes i n then
          go (i + 1) (slow + 1) (if isRl then rlOk + 1 else rlOk) rlUnd rest
        else if isRl then (some (i, true), slow, rlOk, rlUnd + 1)
        else
          let E := if n.rule == .explicit then leafEqs A n else premiseEqs nodes n
          (some (i, (uniCore true 5 E n.l n.r).truncated), slow, rlOk, rlUnd)
    let (res, slow, rlOk, rlUnd) := go 0 0 0 0 nodes
    let nodesVerdict := match res with
      | none => "ok"
      | some (i, true) => s!"und{i}"
      | some (i, false) => s!"bad{i}"
    let roots := (items rS).map fun s =>
      match s.splitOn ":" with
      | [i, eqn] =>
        let (t, u) := parseEqn eqn
        match nodes[nat! i]? with
        | some root => if Orc.instOf root.l root.r t u then "1" else "0"
        | none => "0"
      | _ => "0"
    s!"nodes:{nodesVerdict}|roots:{String.join roots}|slow:{slow}|rl:{rlOk}/{rlUnd}"
  | _ => "bad-case"

end SV.Drv
