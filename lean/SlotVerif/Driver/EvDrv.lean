import SlotVerif.Model.Rules
import SlotVerif.Driver.EgDrv
import SlotVerif.Driver.GroupDrv
/-! `ev` protocol (C03): groups of terms that must denote the same function of the class slots in the model.
`ev <slots>!<term>!<term>...;<group>;...` — one answer per group: `1` or `0:<which>`.  `rules` prints the pool. -/
namespace SV.Drv
open SV SV.Eval SV.Term

def lcg (s : Nat) : Nat := (s * 6364136223846793005 + 1442695040888963407) % 18446744073709551616

/-- environment number `k` over the given names: pseudo-random values; names in `keep` take their value from
environment `base` instead (used to vary only the non-class slots) -/
def mkEnv (names : List Nat) (k : Nat) : Nat → F := fun x =>
  match names.idxOf? x with
  | some i => Fin.ofNat 7 ((lcg (lcg (k * 1000003 + i * 7919 + 17)) / 65536) % 7)
  | none => 0

def evGroup (g : String) : String :=
  match g.splitOn "!" with
  | slotsS :: termSs =>
    let slots := parseNatList ((slotsS.drop 1).dropEnd 1 |>.toString)
    let terms := (termSs.filter (· ≠ "")).map fun s => close (parseTerm s)
    let names := Orc.dedupL (terms.flatMap freeOcc)
    match terms with
    | [] => "1"
    | t0 :: _ =>
      let bad := (List.range 24).findSome? fun k =>
        let env := mkEnv names k
        -- (a) all terms of the group have the value of the first one
        let v0 := eval [] env t0
        match terms.findIdx? (fun t => eval [] env t != v0) with
        | some i => some s!"0:term#{i}-differs-in-env#{k}"
        | none =>
          -- (b) slots the class does not list must not influence the value
          let env2 : Nat → F := fun x => if slots.contains x then env x else mkEnv names (k + 100) x
          match terms.findIdx? (fun t => eval [] env2 t != v0) with
          | some i => some s!"0:term#{i}-depends-on-a-redundant-slot-env#{k}"
          | none => none
      bad.getD "1"
  | [] => "1"

def evRun (body : String) : String :=
  ";".intercalate ((body.splitOn ";").filter (· ≠ "") |>.map evGroup)

def rulesRun (which : String) : String :=
  let pool := if which.trimAscii.toString == "bad" then Rules.badPool else Rules.pool
  ";".intercalate (pool.map Rules.Rule.show)

end SV.Drv
