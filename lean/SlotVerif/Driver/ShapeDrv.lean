import SlotVerif.Driver.Codec
/-! `shape` protocol (C16): `shape <sig>;<node>;<renaming [k>v|..]>` -/
namespace SV.Drv
open SV

def applyRen (ρ : SlotMap) (x : Nat) : Nat := (SlotMap.get ρ x).getD x

def showShape (p : Node × SlotMap) : String := showNode p.1 ++ "~" ++ showMapBar p.2

def shapeRun (body : String) : String :=
  match body.splitOn ";" with
  | [sigS, nodeS, renS] =>
    let sig := parseSig sigS
    let n := parseNode nodeS
    let ρ := parsePairs renS
    let sh := Node.weakShape n
    let n' := Node.rename (applyRen ρ) n
    let sh' := Node.weakShape n'
    let syn := Node.toSyntax sig n
    let outs : List String := [
      showShape sh,
      showList (Node.slots n),
      showList (Node.allOcc n),
      showList (Node.publicOcc n),
      showList (Node.privateOcc n),
      showSyn syn,
      (match fromSyntax sig syn with | some m => showNode m | none => "none"),
      (match Node.applySlotmap sh.1 sh.2 with | some m => showNode m | none => "panic"),
      showShape sh',
      showShape (Node.weakShape sh.1)
    ]
    ";".intercalate outs
  | _ => "bad-case"

end SV.Drv
