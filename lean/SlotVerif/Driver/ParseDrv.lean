import SlotVerif.Model.Parse
import SlotVerif.Driver.Codec
import SlotVerif.Driver.SlotDrv
/-! `parse` protocol (C18): `parse <sig>;<pat|re|mp>;<text as code points>` -/
namespace SV.Drv
open SV SV.Parse

def encStr (s : String) : String := encodeCps s.toList

def parseRun (body : String) : String :=
  match body.splitOn ";" with
  | [sigS, kind, cps] =>
    let sig := parseSig sigS
    let txt := decodeCps cps
    let t0 : Slot.Tab := {}
    match kind with
    | "pat" =>
      match parsePat sig txt t0 with
      | .ok (p, t) => "ok:" ++ encStr (printPat sig t p)
      | .error e => "err:" ++ e.name
    | "re" =>
      match parsePat sig txt t0 with
      | .ok (p, t) => if isTerm p then "ok:" ++ encStr (printPat sig t p) else "err:ParseState"
      | .error e => "err:" ++ e.name
    | "mp" =>
      match parseMulti sig txt t0 with
      | .ok (mp, t) => "ok:" ++ encStr (printMulti sig t mp)
      | .error e => "err:" ++ e.name
    | _ => "bad-kind"
  | _ => "bad-case"

/-- `parse2 <sig>;<kind1>;<text1>;<kind2>;<text2>`: two texts parsed one after the other in one thread; asked is the outcome of
the second, which must not depend on the first (the parser keeps no state between calls, and the printed form of a result
does not depend on what the slot table held before) — so the model parses the second text from the empty table -/
def parse2Run (body : String) : String :=
  match body.splitOn ";" with
  | [sigS, _, _, kind, cps] => parseRun (sigS ++ ";" ++ kind ++ ";" ++ cps)
  | _ => "bad-case"

end SV.Drv
