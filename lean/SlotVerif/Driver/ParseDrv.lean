import SlotVerif.Model.Parse
import SlotVerif.Driver.Codec
import SlotVerif.Driver.SlotDrv
/-! `parse` protocol (C18): `parse <sig>;<pat|re|mp>;<text as code points>` -/
namespace SV.Drv
open SV SV.Parse

partial def isTerm : Pat → Bool
  | .enode _ cs => cs.all isTerm
  | _ => false

/-- Rust `str::split("==")` on a char list -/
def splitEqEq (s : List Char) : List (List Char) :=
  let rec go : List Char → List Char → List (List Char)
    | [], cur => [cur.reverse]
    | '=' :: '=' :: r, cur => cur.reverse :: go r []
    | c :: r, cur => go r (c :: cur)
  go s []

def splitComma (s : List Char) : List (List Char) :=
  let rec go : List Char → List Char → List (List Char)
    | [], cur => [cur.reverse]
    | ',' :: r, cur => cur.reverse :: go r []
    | c :: r, cur => go r (c :: cur)
  go s []

def trimWs (s : List Char) : List Char :=
  ((s.dropWhile isWs).reverse.dropWhile isWs).reverse

/-- `MultiPattern::parse` (after fix): list of (var, node, child vars) -/
def parseMulti (sig : Sig) (s : List Char) (t : Slot.Tab) :
    Except PErr (List (String × Node × List String) × Slot.Tab) :=
  let parts := (splitComma s).map trimWs |>.filter (fun x => !x.isEmpty)
  parts.foldl (fun acc x =>
    match acc with
    | .error e => .error e
    | .ok (out, t) =>
      match splitEqEq x with
      | [l, r] =>
        match parsePat sig l t with
        | .error e => .error e
        | .ok (pl, t1) =>
          match parsePat sig r t1 with
          | .error e => .error e
          | .ok (pr, t2) =>
            match pl with
            | .pvar v =>
              match pr with
              | .enode n cs =>
                let vars := cs.filterMap fun | .pvar x => some x | _ => none
                if vars.length = cs.length then .ok (out ++ [(v, n, vars)], t2) else .error .parseState
              | _ => .error .parseState
            | _ => .error .parseState
      | _ => .error .tokenState) (.ok ([], t))

def printMulti (sig : Sig) (t : Slot.Tab) (mp : List (String × Node × List String)) : String :=
  ", ".intercalate (mp.map fun (v, n, cs) => "?" ++ v ++ " == " ++ printPat sig t (.enode n (cs.map .pvar)))

def encStr (s : String) : String := encodeCps s.toList

def parseRun (body : String) : String :=
  match body.splitOn ";" with
  | [sigS, kind, cps] =>
    let sig := parseSig sigS
    let txt := decodeCps cps
    let t0 : Slot.Tab := {}
    match kind with
    | "pat" =>
      match parsePat sig txt t0 with
      | .ok (p, t) => "ok:" ++ encStr (printPat sig t p)
      | .error e => "err:" ++ e.name
    | "re" =>
      match parsePat sig txt t0 with
      | .ok (p, t) => if isTerm p then "ok:" ++ encStr (printPat sig t p) else "err:ParseState"
      | .error e => "err:" ++ e.name
    | "mp" =>
      match parseMulti sig txt t0 with
      | .ok (mp, t) => "ok:" ++ encStr (printMulti sig t mp)
      | .error e => "err:" ++ e.name
    | _ => "bad-kind"
  | _ => "bad-case"

end SV.Drv
