import SlotVerif.Model.Group
import SlotVerif.Driver.Util
/-! `grp` protocol (C10): `grp <omega>;<gens>;<addgens>;<queries>`; perms are image lists over sorted Ω -/
namespace SV.Drv
open SV SV.Grp

def parseNatList (s : String) : List Nat := if s = "" then [] else (s.splitOn ",").map nat!

def permOf (omega : List Nat) (s : String) : Perm := SlotMap.ofPairs (omega.zip (parseNatList s))

def permsOf (omega : List Nat) (s : String) : List Perm :=
  if s = "" then [] else (s.splitOn "/").map (permOf omega)

def showPerm (p : Perm) : String := ",".intercalate (p.map fun e => toString e.2)

/-- insertion sort of strings (canonical order for sets of permutations) -/
def sortStrings (l : List String) : List String :=
  l.foldl (fun acc x => ins x acc) []
where
  ins (x : String) : List String → List String
    | [] => [x]
    | y :: t => if x ≤ y then x :: y :: t else y :: ins x t

def showPermSet (l : List Perm) : String := "/".intercalate (sortStrings (l.map showPerm))

def showOB : Option Bool → String
  | some true => "1" | some false => "0" | none => "panic"

def grpRun (body : String) : String :=
  match body.splitOn ";" with
  | [omS, gensS, addS, qS] =>
    let omega := parseNatList omS
    let ident := SlotMap.identity omega
    let gens := permsOf omega gensS
    let adds := permsOf omega addS
    let qs := permsOf omega qS
    let g := mk ident gens
    let (g2, grew) := addSet g adds
    -- incremental construction, one generator at a time
    let (gi, flags) := gens.foldl (fun (acc : G × List String) p =>
      let (g', b) := addSet acc.1 [p]; (g', acc.2 ++ [showBool b])) (mk ident [], [])
    let outs : List String := [
      toString (count g),
      showPermSet (allPerms g),
      String.join (qs.map fun q => showOB (contains g q)),
      "|".intercalate (omega.map fun x => showList (sortDedup (orbit g x))),
      showBool grew,
      toString (count g2),
      showPermSet (allPerms g2),
      String.join flags,
      toString (count gi),
      showPermSet (allPerms gi),
      String.join (qs.map fun q => showOB (contains gi q)),
      showBool (isTrivial g)
    ]
    ";".intercalate outs
  | _ => "bad-case"

/-- `egs` protocol (C10, e-graph path): `egs <omega>;<gens in the order asserted>;<queries>` — which permuted copies of a
leaf term compare equal to it after the generators were asserted by unions, and the symmetry count of its class -/
def egsRun (body : String) : String :=
  match body.splitOn ";" with
  | [omS, gensS, qS] =>
    let omega := parseNatList omS
    let g := mk (SlotMap.identity omega) (permsOf omega gensS)
    String.join ((permsOf omega qS).map fun q => showOB (contains g q)) ++ ";" ++ toString (count g)
  | _ => "bad-case"

/-- `egr` protocol (C10, e-graph path with redundancy): `egr <omega>;<gens>;<queries>;<redundant slots>;<order>` — the
argument symmetries of a leaf term are asserted by unions and some argument positions are declared redundant (before or
after, `<order>` is not used by the model: the answer must not depend on it).  The orbit of a redundant slot is
redundant; on the remaining slots the class symmetries are the restrictions of the generated group
(`C10.restricted_contains_iff`).  Output: for every query permutation whether the permuted copy is equal, the symmetry
count and the number of remaining slots. -/
def egrRun (body : String) : String :=
  match body.splitOn ";" with
  | [omS, gensS, qS, redS, _] =>
    let omega := parseNatList omS
    let g := mk (SlotMap.identity omega) (permsOf omega gensS)
    let red := (parseNatList redS).flatMap fun r => orbit g r
    let keep := omega.filter fun x => !red.contains x
    let gk := mk (SlotMap.identity keep) ((generators g).map (restrict keep))
    String.join ((permsOf omega qS).map fun q =>
      if keep.all (fun x => match SlotMap.get q x with | some y => keep.contains y | none => false)
      then showOB (contains gk (restrict keep q)) else "0")
      ++ ";" ++ toString (count gk) ++ ";" ++ toString keep.length
  | _ => "bad-case"

end SV.Drv
