import SlotVerif.Model.SnapInv
import SlotVerif.Model.Extract
import SlotVerif.Model.Analysis
import SlotVerif.Model.Match
import SlotVerif.Model.EMatch
import SlotVerif.Model.MultiMatch
import SlotVerif.Model.Add
import SlotVerif.Driver.Codec
/-! `snap` protocol (C08/C09/C05): `snap <sig>;<snapshot lines joined by ~>;<query>;<query>...` -/
namespace SV.Drv
open SV

def parseSynElem (s : String) : SynElem :=
  match s.toList with
  | 's' :: ':' :: t => .str (String.ofList t)
  | '$' :: t => .slot (nat! (String.ofList t))
  | '@' :: _ => .app (parseApp s)
  | _ => .str s

def parseFlat (s : String) : List SynElem := (s.splitOn ",").map parseSynElem

def parseFlatNode (sig : Sig) (s : String) : Node :=
  (fromSyntax sig (parseFlat s)).getD { v := 999, fields := [] }

def parseSlotSet (s : String) : List Nat :=
  let inner := (s.drop 1).dropEnd 1 |>.toString
  if inner = "" then [] else (inner.splitOn "|").map nat!

def parseSnap (sig : Sig) (text : String) : Snap :=
  let lines := (text.splitOn "~").filter (· ≠ "")
  let ufs := lines.filterMap fun l =>
    match words l with
    | ["uf", i, a] => some (nat! i, parseApp a)
    | _ => none
  let n := ufs.length
  let uf := (List.range n).map fun i => ((ufs.find? (·.1 == i)).map (·.2)).getD { id := i, m := [] }
  let classes := lines.filterMap fun l =>
    match words l with
    | "class" :: i :: slots :: syn :: rest =>
      let id := nat! i
      let nodes := lines.filterMap fun l2 =>
        match words l2 with
        | ["node", j, sh, bij, _src] => if nat! j == id then some (parseFlatNode sig sh, parsePairs bij) else none
        | _ => none
      let gens := lines.filterMap fun l2 =>
        match words l2 with
        | ["gen", j, p] => if nat! j == id then some (parsePairs p) else none
        | _ => none
      some { id := id, slots := parseSlotSet slots, nodes := nodes, gens := gens,
             syn := parseFlatNode sig syn, data := " ".intercalate rest : SClass }
    | _ => none
  let pending := lines.filterMap fun l =>
    match words l with
    | ["pend", sh, ty] => some (parseFlatNode sig sh, ty)
    | _ => none
  { uf := uf, classes := classes, pending := pending }

/-- pattern text: `{<node> <child>...}` with `{?name}` for pattern variables; nodes in the structured encoding -/
partial def parseMPatChars : List Char → Option (MPat × List Char)
  | '{' :: '?' :: r =>
    let nm := r.takeWhile (· != '}')
    some (.pvar (String.ofList nm), (r.dropWhile (· != '}')).drop 1)
  | '{' :: r =>
    let nodeCs := r.takeWhile (fun c => c != ' ' && c != '}' && c != '{')
    let rest := r.dropWhile (fun c => c != ' ' && c != '}' && c != '{')
    let node := parseNode (String.ofList nodeCs)
    let rec kids (acc : List MPat) : List Char → Option (List MPat × List Char)
      | ' ' :: r => kids acc r
      | '}' :: r => some (acc.reverse, r)
      | '{' :: r =>
        match parseMPatChars ('{' :: r) with
        | some (t, r') => kids (t :: acc) r'
        | none => none
      | _ => none
    match kids [] rest with
    | some (cs, r') => some (.node node cs, r')
    | none => none
  | _ => none

def parseMPat (s : String) : MPat :=
  match parseMPatChars s.toList with
  | some (p, _) => p
  | none => .pvar "?"

/-- `name=@id[..]&name=@id[..]` -/
def parseSubst (s : String) : MPat.Subst :=
  if s = "-" then [] else
  (s.splitOn "&").filterMap fun e =>
    match e.splitOn "=" with
    | [v, a] => some (v, parseApp a)
    | _ => none

/-! ### canonical rendering of match lists (the same procedure as `canon_matches` in the harness) -/

mutual
def patSlots : MPat → List Nat
  | .pvar _ => []
  | .node n cs => Node.allOcc n ++ patSlotsL cs
def patSlotsL : List MPat → List Nat
  | [] => []
  | p :: ps => patSlots p ++ patSlotsL ps
end

/-- render the entries of an argument map; fresh slots (not pattern slots) are numbered by first appearance, continuing `num` -/
def renderArgs (pslots : List Nat) (m : SlotMap) (num : List Nat) : String × List Nat :=
  let (parts, num') := m.foldl (fun (acc : List String × List Nat) p =>
    if pslots.contains p.2 then (acc.1 ++ [s!"{p.1}>p{p.2}"], acc.2)
    else match acc.2.idxOf? p.2 with
      | some i => (acc.1 ++ [s!"{p.1}>F{i}"], acc.2)
      | none => (acc.1 ++ [s!"{p.1}>F{acc.2.length}"], acc.2 ++ [p.2])) ([], num)
  ("|".intercalate parts, num')

def strLt (a b : String) : Bool := a < b

/-- one match: variables in name order; each invocation ranges over its symmetry orbit (the matcher may return any member).
The rendering is the lexicographically smallest sequence of parts: per variable the smallest text over the orbit and over
all fresh-slot numberings that produced the smallest texts so far (ties are all kept, they number the fresh slots differently) -/
def canonMatch (s : Snap) (pslots : List Nat) (σ : List (String × AppId)) : String :=
  let sorted := σ.foldl (fun (acc : List (String × AppId)) b =>
    let rec ins : List (String × AppId) → List (String × AppId)
      | [] => [b]
      | x :: t => if strLt b.1 x.1 then b :: x :: t else x :: ins t
    ins acc) []
  let coarse := "!" ++ "&".intercalate (sorted.map fun b => s!"{b.1}=@{b.2.id}#{b.2.m.length}")
  let (parts, numsEnd) := sorted.foldl (fun (acc : List String × List (List Nat)) b =>
    if acc.2.length > 48 then acc else
    let perms := match s.cls b.2.id with
      | some c => Grp.allPerms (Snap.group c)
      | none => []
    let maps := if perms.isEmpty then [b.2.m] else perms.map fun p => SlotMap.composePartial p b.2.m
    let rendered := acc.2.flatMap fun num => maps.map fun m => renderArgs pslots m num
    let best := rendered.foldl (fun (bst : Option String) r =>
      match bst with
      | none => some r.1
      | some b0 => if strLt r.1 b0 then some r.1 else some b0) none
    match best with
    | some txt =>
      let nums := (rendered.filter fun r => r.1 == txt).map (·.2)
      let nums := nums.foldl (fun (l : List (List Nat)) n => if l.contains n then l else l ++ [n]) []
      (acc.1 ++ [s!"{b.1}=@{b.2.id}[{txt}]"], nums)
    | none => (acc.1 ++ [s!"{b.1}=@{b.2.id}[]"], acc.2)) ([], [[]])
  -- too many equally good numberings (large symmetry groups over interchangeable fresh slots): fall back to the coarse form
  if numsEnd.length > 48 then coarse else "&".intercalate parts

def canonMatches (s : Snap) (p : MPat) (ms : List (List (String × AppId))) : String :=
  let strs := ms.map (canonMatch s (patSlots p))
  let sorted := strs.foldl (fun (acc : List String) x =>
    let rec ins : List String → List String
      | [] => [x]
      | y :: t => if x == y then y :: t else if strLt x y then x :: y :: t else y :: ins t
    ins acc) []
  s!"{sorted.length}:" ++ "/".intercalate sorted

def showOptApp : Option AppId → String
  | some a => showApp a
  | none => "none"

def showLookup : Option AppId → String
  | some a => s!"{a.id}:{showList (Node.dedupSorted (SlotMap.valuesVec a.m))}"
  | none => "none"

/-! ### `add` on a miss: the model's state after `Snap.addNew` against the implementation's dump after `EGraph::add` -/

def permStr (p : Perm) : String := showMapBar p

def sortStrs (l : List String) : List String :=
  l.foldl (fun (acc : List String) x =>
    let rec ins : List String → List String
      | [] => [x]
      | y :: t => if x == y then y :: t else if strLt x y then x :: y :: t else y :: ins t
    ins acc) []

/-- the class group as a set (the generator list that spells it is not an observable) -/
def groupSet (c : SClass) : List String := sortStrs ((Grp.allPerms (Snap.group c)).map permStr)

def cmpAdd (s : Snap) (n : Node) (res : AppId) (t : Snap) : String :=
  let newId := s.uf.length
  match t.cls newId with
  | none => "diff:no-new-class"
  | some ct =>
    match Snap.addNew s n res.m ct.syn ct.data with
    | none => "model-none"
    | some (m, a) =>
      if a.id != res.id then "diff:id"
      -- the hypotheses of `lookup_agrees_with_add`, per run: a well-formed table, no class id beyond it
      else if !s.ufOK then "diff:ufOK-before"
      else if s.classes.any (fun c => c.id >= s.uf.length) then "diff:class-id-beyond-table"
      else if t.uf.length != m.uf.length then "diff:uf-length"
      else if (List.range m.uf.length).any (fun i =>
          (Snap.ufGet t (t.uf.length + 1) i).map showApp != (Snap.ufGet m (m.uf.length + 1) i).map showApp) then "diff:uf-resolution"
      else if t.classes.length != m.classes.length then "diff:class-count"
      else match m.cls newId with
        | none => "diff:model-no-class"
        | some cm =>
          if cm.slots != ct.slots then "diff:slots"
          else if groupSet cm != groupSet ct then s!"diff:group:{(groupSet cm).length}"
          else if !(match cm.nodes, ct.nodes with
              -- the stored bijection is determined up to a symmetry of the new class: which of several equally minimal
              -- variants `min_by_key` meets first depends on the iteration order of a hash set (`all_perms`)
              | [(shm, bm)], [(shi, bi)] => showNode shm == showNode shi &&
                  Grp.contains (Snap.group cm) (SlotMap.composePartial (SlotMap.inverse bm) bi) == some true
              | _, _ => false) then
            "diff:node:model=" ++ ",".intercalate (cm.nodes.map fun e => showNode e.1 ++ showMapBar e.2) ++
              ":impl=" ++ ",".intercalate (ct.nodes.map fun e => showNode e.1 ++ showMapBar e.2)
          else if s.classes.any (fun c =>
              match t.cls c.id with
              | some c' => !(c'.slots == c.slots && c'.gens.map permStr == c.gens.map permStr &&
                  c'.nodes.map (fun e => (showNode e.1, showMapBar e.2)) == c.nodes.map (fun e => (showNode e.1, showMapBar e.2)))
              | none => true) then "diff:old-class-changed"
          else if !m.checkInv then "diff:model-state-not-invariant"
          else "ok"

def snapQuery (sig : Sig) (s : Snap) (q : String) : String :=
  match words q with
  | ["find", a] => showOptApp (s.find (parseApp a))
  | ["eq", a, b] => (match s.eq (parseApp a) (parseApp b) with | some true => "1" | some false => "0" | none => "panic")
  | ["alive", i] => showBool (s.isAlive (nat! i))
  | ["ids"] => showList s.ids
  | ["inv"] => showBool s.checkInv
  | ["slots", i] => (match s.cls (nat! i) with | some c => showList c.slots | none => "none")
  | ["lookup", n] => showLookup (s.lookup (parseFlatNode sig n))
  | ["shape", n] => (match s.shape (parseFlatNode sig n) with
      | some (sh, _) => showSyn (Node.toSyntax sig sh) | none => "none")
  | ["lookeq", n, r] =>
    -- is the implementation's lookup result equal (up to the class symmetries) to the model's?
    (match s.lookup (parseFlatNode sig n) with
     | some a => (match s.eq a (parseApp r) with | some true => "1" | some false => "0" | none => "panic")
     | none => "none")
  | ["best", cfS, i] =>
    let cf := match cfS with | "ast" => Extract.CF.ast | "depth" => Extract.CF.depth | _ => Extract.CF.op
    -- the model of `Extractor::new`'s heap loop (proved to end with an accepted table: `dijkstra_accepted`); the
    -- checker and the relaxation table are evaluated as well, as a run-time cross-check of the compiled code
    let t := Extract.dijkstra cf s
    if !Extract.checkTable cf s t then "table-rejected"
    else if Extract.Table.get (Extract.minCost cf s) (nat! i) != Extract.Table.get t (nat! i) then "tables-differ"
    else (match Extract.Table.get t (nat! i) with | some k => toString k | none => "none")
  | ["fix", kS] =>
    let k := match kS with | "minsize" => Analysis.Kind.minSize | "const" => Analysis.Kind.const | _ => Analysis.Kind.minDepth
    (match Analysis.firstBad k s with | none => "1" | some i => s!"0:class{i}")
  | ["minsize-best"] =>
    -- the min-size datum of every live class equals the checked cheapest AstSize cost
    let t := Extract.minCost .ast s
    if !Extract.checkTable .ast s t then "table-rejected" else
    (match s.classes.find? (fun c => s.isAlive c.id && Analysis.parseData .minSize c.data != Extract.Table.get t c.id) with
     | none => "1" | some c => s!"0:class{c.id}")
  | ["const-nodes"] =>
    -- a class with constant datum v holds the number node v, and holds no other number node
    (match s.classes.find? (fun c => s.isAlive c.id &&
        (match Analysis.parseData .const c.data with
         | some v => !(c.nodes.any fun e => e.1.v == 15 && (Analysis.litNat e.1).map (· % 7) == some v) ||
                     (c.nodes.any fun e => e.1.v == 15 && (Analysis.litNat e.1).map (· % 7) != some v)
         | none => c.nodes.any fun e => e.1.v == 15)) with
     | none => "1" | some c => s!"0:class{c.id}")
  | ["match", p, sub] => showBool (MPat.checkMatch s (parseMPat p) (parseSubst sub))
  | ["mateq", v, n, cs, sub] =>
    showBool (MPat.checkEquation s (parseSubst sub) v (parseNode n) (if cs = "-" then [] else cs.splitOn ","))
  | ["compress", is] =>
    -- the union-find table after `unionfind_get` on these ids, in this order (path compression write-backs)
    (match Snap.compressAll s.uf (if is = "-" then [] else (is.splitOn ",").map nat!) with
     | some uf' => ",".intercalate (uf'.map showApp)
     | none => "panic")
  | ["ematch", p] =>
    -- the set of matches of the single-pattern matcher, modulo fresh names and class symmetries
    let pat := parseMPat p
    canonMatches s pat (EMatch.ematchAll s pat 1000000).1
  | ["mmatch", eqsS] =>
    -- the set of substitutions of the multi-pattern matcher; equations `v~node~c1,c2` joined by `/`
    let eqs : List (String × Node × List String) := (eqsS.splitOn "/").filterMap fun e =>
      match e.splitOn "~" with
      | [v, n, cs] => some (v, parseNode n, if cs = "-" then [] else cs.splitOn ",")
      | _ => none
    let pslots := eqs.flatMap fun e => Node.allOcc e.2.1
    let ms := (MultiMatch.multiEmatch s eqs 1000000).1
    let strs := ms.map (canonMatch s pslots)
    let sorted := strs.foldl (fun (acc : List String) x =>
      let rec ins : List String → List String
        | [] => [x]
        | y :: t => if x == y then y :: t else if strLt x y then x :: y :: t else y :: ins t
      ins acc) []
    s!"{sorted.length}:" ++ "/".intercalate sorted
  | ["lookrec", t] =>
    -- `lookup_rec_expr`: bottom-up lookup of a whole term (a pattern without variables)
    showLookup (MPat.lookupPat s [] (parseMPat t))
  | ["addnew", n, r, d] =>
    -- `EGraph::add` of a node that is not yet represented: the dump afterwards against the model of the miss path
    cmpAdd s (parseFlatNode sig n) (parseApp r) (parseSnap sig ((d.replace "`" " ").replace "^" "~"))
  | ["count", i] => (match s.cls (nat! i) with | some c => toString (Grp.count (Snap.group c)) | none => "none")
  | _ => "bad-query"

def snapRun (body : String) : String :=
  match body.splitOn ";" with
  | sigS :: snapS :: qs =>
    let sig := parseSig sigS
    let s := parseSnap sig snapS
    ";".intercalate ((qs.filter (· ≠ "")).map (snapQuery sig s))
  | _ => "bad-case"

end SV.Drv
