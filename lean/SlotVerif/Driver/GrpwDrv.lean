import SlotVerif.Model.GroupWrite
import SlotVerif.Driver.Codec
/-! `grpw` protocol (C13): one entry per `move_to` / `shrink_slots` call of a history —
`merge <from> <to> <map> <from gens> <to gens before> <to gens after>` or `shrink <id> <cap> <gens before> <gens after>`
(generator lists joined by `/`, `-` = no generator), or `add <id> <l> <r> <perm> <gens before> <gens after>` for a `Group::add`.  Each entry is judged by `Grpw.mergeOK` / `Grpw.shrinkOK`. -/
namespace SV.Drv
open SV

def parsePermList (s : String) : List Perm :=
  if s = "" || s = "-" then [] else (s.splitOn "/").map parsePairs

def parseBarSet (s : String) : List Nat :=
  let inner := (s.drop 1).dropEnd 1 |>.toString
  if inner = "" then [] else (inner.splitOn "|").map nat!

def grpwEntry (e : String) : String :=
  match e.splitOn " " with
  | ["merge", _from, _to, mapS, fgS, tbS, taS] =>
    let N := parsePairs mapS
    showBool (Grpw.mergeOK (SlotMap.keys N) N (parsePermList fgS) (parsePermList tbS) (parsePermList taS))
  | ["shrink", _id, capS, bS, aS] =>
    showBool (Grpw.shrinkOK (parseBarSet capS) (parsePermList bS) (parsePermList aS))
  | ["add", _id, lS, rS, pS, bS, aS] =>
    let p := parsePairs pS
    let ok := Grpw.addOK (SlotMap.keys p) (parsePermList bS) p (parsePermList aS)
    -- a self-union: the permutation handed to the group is the one the asserted equation `id[l] = id[r]` spells
    let okp := if lS = "-" then true else p == Grpw.selfUnionPerm (parsePairs lS) (parsePairs rS)
    if !okp then "0:perm-is-not-r-after-l-inverse" else showBool ok
  | _ => "bad-entry"

def grpwRun (body : String) : String :=
  ";".intercalate (((body.splitOn ";").filter (· ≠ "")).map grpwEntry)

end SV.Drv
