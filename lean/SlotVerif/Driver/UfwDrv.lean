import SlotVerif.Model.UfWrite
import SlotVerif.Driver.Codec
/-! `ufw` protocol (C13): per operation of a history `writes#table` — the `unionfind_set` calls the operation made
(`i:@id[map]`, comma separated) and the raw union-find table it left behind.  The model table starts empty and is advanced by
`Snap.applyWrites` (every write must pass `validWrite`); after every operation each id must resolve in the model table to
exactly what it resolves to in the implementation's table (which additionally went through path compressions). -/
namespace SV.Drv
open SV

def ufwResolve (uf : List AppId) (j : Nat) : Option AppId :=
  Snap.ufGet { uf := uf, classes := [] } (uf.length + 1) j

def ufwSteps (m : List AppId) : List String → List String
  | [] => []
  | st :: rest =>
    match st.splitOn "#" with
    | [ws, tb] =>
      let writes := ((ws.splitOn ",").filter (· ≠ "")).filterMap fun w =>
        match w.splitOn ":" with
        | [i, e] => some (nat! i, parseApp e)
        | _ => none
      let table := ((tb.splitOn ",").filter (· ≠ "")).map parseApp
      match Snap.applyWrites m writes with
      | none =>
        -- name the first write that does not pass its guard
        let rec firstBad (m : List AppId) : List (Nat × AppId) → String
          | [] => "invalid-write"
          | w :: ws => if Snap.validWrite m w.1 w.2 then firstBad (Snap.ufSet m w.1 w.2) ws
                       else s!"invalid-{Snap.writeKind m w.1 w.2}-of-{w.1}"
        [firstBad m writes]
      | some m' =>
        let n := m'.length
        let ok := n == table.length && (List.range n).all fun j =>
          (ufwResolve m' j).isSome && ufwResolve m' j == ufwResolve table j
        (if ok then "1" else "0") :: ufwSteps m' rest
    | _ => ["bad"]

def ufwRun (body : String) : String :=
  ";".intercalate (ufwSteps [] ((body.splitOn ";").filter (· ≠ "")))

end SV.Drv
