import SlotVerif.Model.Node
import SlotVerif.Driver.Util
/-! Text encoding of signatures, nodes, slot maps (shared with `/verif/harness/src/langs.rs`). -/
namespace SV.Drv
open SV

def parseKindChars : List Char → Kind
  | 'S' :: _ => .slot
  | 'A' :: _ => .app
  | 'B' :: t => .bind (parseKindChars t)
  | 'L' :: t => .lit (String.ofList t)
  | _ => .slot

def parseSig (s : String) : Sig :=
  (s.splitOn "/").map fun v =>
    match v.splitOn ":" with
    | [name, ks] =>
      { name := if name = "-" then none else some name,
        kinds := if ks = "" then [] else (ks.splitOn ",").map fun k => parseKindChars k.toList }
    | _ => { name := none, kinds := [] }

def parsePairs (s : String) : SlotMap :=
  -- "[k>v|k>v]" or "[]"
  let inner := (s.drop 1).dropEnd 1 |>.toString
  if inner = "" then [] else
    (inner.splitOn "|").map fun p =>
      match p.splitOn ">" with
      | [k, v] => (nat! k, nat! v)
      | _ => (0, 0)

def parseApp (s : String) : AppId :=
  -- "@id[...]"
  match (s.drop 1).toString.splitOn "[" with
  | [i, rest] => { id := nat! i, m := parsePairs ("[" ++ rest) }
  | _ => { id := 0, m := [] }

def parseFieldSegs : List String → Field
  | [] => .lit ""
  | [x] =>
    match x.toList with
    | '$' :: t => .slot (nat! (String.ofList t))
    | '@' :: _ => .app (parseApp x)
    | '\'' :: t => .lit (String.ofList t)
    | _ => .lit x
  | x :: rest =>
    match x.toList with
    | 'b' :: t => .bind (nat! (String.ofList t)) (parseFieldSegs rest)
    | _ => .lit x

def parseField (s : String) : Field := parseFieldSegs (s.splitOn ".")

def parseNode (s : String) : Node :=
  -- "v(f,f,...)"
  match s.splitOn "(" with
  | v :: rest =>
    let inner := ("(".intercalate rest).dropEnd 1 |>.toString
    { v := nat! v, fields := if inner = "" then [] else (inner.splitOn ",").map parseField }
  | [] => { v := 0, fields := [] }

def showMapBar (m : SlotMap) : String :=
  "[" ++ "|".intercalate (m.map fun p => s!"{p.1}>{p.2}") ++ "]"

def showApp (a : AppId) : String := s!"@{a.id}{showMapBar a.m}"

def showField : Field → String
  | .slot s => s!"${s}"
  | .app a => showApp a
  | .bind s f => s!"b{s}.{showField f}"
  | .lit v => s!"'{v}"

def showNode (n : Node) : String :=
  s!"{n.v}(" ++ ",".intercalate (n.fields.map showField) ++ ")"

def showSyn (l : List SynElem) : String :=
  ",".intercalate (l.map fun
    | .str s => s!"s:{s}"
    | .slot s => s!"${s}"
    | .app a => showApp a)

end SV.Drv
