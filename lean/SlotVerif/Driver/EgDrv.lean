import SlotVerif.Model.Oracle
import SlotVerif.Driver.Codec
/-! `eg` protocol: histories of adds and unions judged by the saturation oracle (C01, C02, C11, C12, C13).
Everything in this file except the calls to `Orc.step` is heuristics (universe, candidates). -/
namespace SV.Drv
open SV SV.Term

/-! ### term text: `{<node> <child> <child> ...}` -/

partial def parseTermChars : List Char → Option (Term × List Char)
  | '{' :: r =>
    let nodeCs := r.takeWhile (fun c => c != ' ' && c != '}' && c != '{')
    let rest := r.dropWhile (fun c => c != ' ' && c != '}' && c != '{')
    let node := parseNode (String.ofList nodeCs)
    let rec kids (acc : List Term) : List Char → Option (List Term × List Char)
      | ' ' :: r => kids acc r
      | '}' :: r => some (acc.reverse, r)
      | '{' :: r =>
        match parseTermChars ('{' :: r) with
        | some (t, r') => kids (t :: acc) r'
        | none => none
      | _ => none
    match kids [] rest with
    | some (cs, r') => some (.mk node cs, r')
    | none => none
  | _ => none

def parseTerm (s : String) : Term :=
  match parseTermChars s.toList with
  | some (t, _) => t
  | none => .mk { v := 0, fields := [] } []

/-! ### universe generation (heuristics) -/

/-- all injective maps from `names` into `pool`, as association lists -/
def injections : List Nat → List Nat → List (List (Nat × Nat))
  | [], _ => [[]]
  | a :: as, pool =>
    (injections as pool).flatMap fun σ =>
      (pool.filter fun b => !(σ.any (·.2 == b))).map fun b => (a, b) :: σ

partial def subterms (pool : List Nat) (t : Term) : List Term :=
  match t with
  | .mk n cs =>
    let names := Orc.freshNames pool t t ((childDepths n).foldl max 0)
    let kids := (childDepths n).zip cs |>.map fun (d, c) => openMany (names.take d) c
    t :: kids.flatMap (subterms pool)

structure Uni where
  univ : Array Term := #[]
  index : Std.HashMap String Nat := {}
  origin : Array Nat := #[]      -- which base subterm an element is an instance of

def Uni.add (u : Uni) (t : Term) (orig : Nat) : Uni :=
  let k := Term.key t
  if u.index.contains k then u
  else { univ := u.univ.push t, index := u.index.insert k u.univ.size, origin := u.origin.push orig }

def buildUniverse (pool : List Nat) (tracked : List Term) : Uni × Array Term :=
  let subs := (tracked.flatMap (subterms pool)).foldl (fun (acc : Array Term × Std.HashSet String) t =>
    let k := Term.key t
    if acc.2.contains k then acc else (acc.1.push t, acc.2.insert k)) (#[], {})
  let subsArr := subs.1
  let u := (List.range subsArr.size).foldl (fun (u : Uni) i =>
    let s := subsArr[i]!
    (injections (fv s) pool).foldl (fun u σ => u.add (mapFree (Orc.applyRen σ) s) i) u) {}
  (u, subsArr)

/-! ### candidate generation and the closure loop (heuristics; every merge goes through `Orc.step`) -/

def axCands (o : Orc) (l r : Term) : List (Nat × Nat) :=
  let names := Orc.dedupL (freeOcc l ++ freeOcc r)
  (injections names o.pool).filterMap fun σ =>
    match o.lookup (mapFree (Orc.applyRen σ) l), o.lookup (mapFree (Orc.applyRen σ) r) with
    | some i, some j => if o.find i == o.find j then none else some (i, j)
    | _, _ => none

/-- signature of an element w.r.t. the current partition, opening with names fresh for the element -/
def signature (o : Orc) (t : Term) : String × Bool :=
  match t with
  | .mk n cs =>
    let depths := childDepths n
    let k := depths.foldl max 0
    let names := Orc.freshNames o.pool t t k
    let kids := (depths.zip cs).map fun (d, c) =>
      match o.lookup (openMany (names.take d) c) with
      | some i => toString (o.find i)
      | none => "?"
    (showNodeKey n ++ "/" ++ ",".intercalate kids ++ "/" ++ ",".intercalate (names.map toString), k > 0)

def congrCands (o : Orc) : List (Nat × Nat) :=
  let n := o.univ.size
  -- 1. same signature => candidate
  let (groups, binderIdx) := (List.range n).foldl (fun (acc : Std.HashMap String Nat × List (Nat × Nat) × Std.HashMap String (List Nat)) i =>
    let (m, out, bind) := acc
    let t := o.univ[i]!
    let (sg, isB) := signature o t
    let bind := if isB then
        (match t with | .mk nd _ => let key := showNodeKey nd; bind.insert key (i :: (bind.getD key [])))
      else bind
    match m.get? sg with
    | some j => if o.find i == o.find j then (m, out, bind) else (m, (j, i) :: out, bind)
    | none => (m.insert sg i, out, bind)) (({} : Std.HashMap String Nat), ([] : List (Nat × Nat)), ({} : Std.HashMap String (List Nat))) |> fun (_, out, bind) => (out, bind)
  -- 2. binder nodes with the same node text: all pairs (their canonical opening names may differ)
  let pairs := binderIdx.fold (fun acc _ is =>
    is.foldl (fun acc i => is.foldl (fun acc j => if i < j && o.find i != o.find j then (i, j) :: acc else acc) acc) acc) groups
  pairs

partial def saturate (o : Orc) (rounds : Nat := 0) : Orc × Nat :=
  let cands := congrCands o
  if cands.isEmpty then (o, rounds) else
    let o' := o.run cands
    -- stop when a round changes nothing
    if (List.range o.univ.size).all (fun i => o'.find i == o.find i) then (o', rounds + 1)
    else saturate o' (rounds + 1)

/-! ### spec-level observables computed from the partition -/

def specEq (o : Orc) (t u : Term) : String :=
  match o.lookup t, o.lookup u with
  | some i, some j => if o.find i == o.find j then "1" else "0"
  | _, _ => "?"

def redundantNames (o : Orc) (t : Term) : List Nat :=
  let names := fv t
  let spare := Orc.freshNames o.pool t t 1
  match spare, o.lookup t with
  | [c], some i =>
    names.filter fun s =>
      match o.lookup (mapFree (fun x => if x == s then c else x) t) with
      | some j => o.find i == o.find j
      | none => false
  | _, _ => []

/-- number of permutations of the non-redundant names of `t` that give an equal term -/
def symCount (o : Orc) (t : Term) (red : List Nat) : String :=
  let names := (fv t).filter fun x => !red.contains x
  if names.length > 4 then "?" else
  match o.lookup t with
  | none => "?"
  | some i =>
    let cnt := (injections names names).foldl (fun acc σ =>
      match o.lookup (mapFree (Orc.applyRen σ) t) with
      | some j => if o.find i == o.find j then acc + 1 else acc
      | none => acc) 0
    toString cnt

/-- number of classes up to renaming, counted over the base subterms -/
def classCount (o : Orc) (origin : Array Nat) (subs : Array Term) : Nat :=
  let nsubs := subs.size
  -- union-find over origins through shared class labels
  let labelOwner : Std.HashMap Nat Nat := {}
  let parent : Array Nat := Array.range nsubs
  let rec findP (p : Array Nat) (fuel : Nat) (x : Nat) : Nat :=
    match fuel with
    | 0 => x
    | f + 1 => let y := p.getD x x; if y == x then x else findP p f y
  let items : List (Nat × Nat) :=
    ((List.range nsubs).filterMap fun x => (o.lookup subs[x]!).map fun i => (i, x)) ++
    (List.range o.univ.size).map fun i => (i, origin.getD i 0)
  let (_, parent) := items.foldl (fun (acc : Std.HashMap Nat Nat × Array Nat) (i, og) =>
    let (owner, par) := acc
    let lbl := o.find i
    match owner.get? lbl with
    | none => (owner.insert lbl og, par)
    | some og2 =>
      let a := findP par nsubs og
      let b := findP par nsubs og2
      if a == b then (owner, par) else (owner, par.set! a b)) (labelOwner, parent)
  (List.range nsubs).foldl (fun acc x => if findP parent nsubs x == x then acc + 1 else acc) 0

/-- index of a universe element that is `Cong`-equal to `t`, if `t` is *represented*: either it is in
the universe, or all its children are represented and some element has the same node and children
in the same classes (searched by brute force) -/
partial def repIdx (o : Orc) (t : Term) : Option Nat :=
  match o.lookup t with
  | some i => some i
  | none =>
    match t with
    | .mk n cs =>
      let depths := childDepths n
      let k := depths.foldl max 0
      let names := Orc.freshNames o.pool t t k
      if names.length < k then none else
      let kidReps := (depths.zip cs).map fun (d, c) => repIdx o (openMany (names.take d) c)
      if kidReps.any (·.isNone) then none else
      let labels := kidReps.map fun r => o.find (r.getD 0)
      (List.range o.univ.size).find? fun j =>
        match o.univ[j]! with
        | .mk m ds =>
          decide (m = n) && ds.length == cs.length &&
          (let names2 := Orc.freshNames o.pool (.mk m ds) t k
           names2.length == k &&
           ((depths.zip ds).zip ((depths.zip cs).zip labels)).all fun ((d, e), ((_, c), _)) =>
             match o.lookup (openMany (names2.take d) e), repIdx o (openMany (names2.take d) c) with
             | some a, some b => o.find a == o.find b
             | _, _ => false)

structure EgState where
  orc : Orc
  origin : Array Nat
  subs : Array Term
  tracked : Array Term

def observe (st : EgState) : String :=
  let o := st.orc
  let ts := st.tracked.toList
  let rec pairs : List Term → String
    | [] => ""
    | a :: rest => String.join (rest.map fun b => specEq o a b) ++ pairs rest
  let reds := ts.map (redundantNames o)
  let slots := (ts.zip reds).map fun (t, r) => toString ((fv t).length - r.length)
  let syms := (ts.zip reds).map fun (t, r) => symCount o t r
  s!"eq:{pairs ts}|slots:{",".intercalate slots}|syms:{",".intercalate syms}|classes:{classCount o st.origin st.subs}"

/-- `eg <sig>;<op>;<op>...` with ops `A<term>` (add, tracked), `U<i>,<j>` (union of tracked terms), `Q` (observe) -/
def egRun (body : String) : String :=
  match body.splitOn ";" with
  | sigS :: ops =>
    let extra := match (sigS.splitOn "spares=") with
      | [_, k] => nat! k
      | _ => 0
    let adds := ops.filterMap fun op => if op.startsWith "A" then some (close (parseTerm (op.drop 1).toString)) else none
    let probes := ops.filterMap fun op => if op.startsWith "L" then some (close (parseTerm (op.drop 1).toString)) else none
    let names := Orc.dedupL ((adds ++ probes).flatMap freeOcc)
    let maxfv := adds.foldl (fun m t => max m (fv t).length) 0
    let nspare := max (max 2 (min 3 maxfv)) extra
    let spares := (List.range nspare).map fun i => 4 * (900 + i)
    let pool := names ++ spares
    let (u, subs) := buildUniverse pool adds
    let o0 : Orc := { E := [], pool := pool, univ := u.univ, cls := Array.range u.univ.size, index := u.index }
    let st0 : EgState := { orc := (saturate o0).1, origin := u.origin, subs := subs, tracked := #[] }
    let (_, outs) := ops.foldl (fun (acc : EgState × List String) op =>
      let (st, outs) := acc
      if op.startsWith "A" then
        ({ st with tracked := st.tracked.push (close (parseTerm (op.drop 1).toString)) }, outs)
      else if op.startsWith "U" then
        match ((op.drop 1).toString.splitOn ",").map nat! with
        | [i, j] =>
          match st.tracked[i]?, st.tracked[j]? with
          | some l, some r =>
            let o := { st.orc with E := (l, r) :: st.orc.E }
            let o := o.run (axCands o l r)
            ({ st with orc := (saturate o).1 }, outs)
          | _, _ => (st, outs)
        | _ => (st, outs)
      else if op == "Q" then
        -- the universe (hence the class count) is sized from ALL insertions of the history: at a query that
        -- precedes an insertion the count would include classes the implementation does not have yet — undetermined
        (st, (if st.tracked.size < adds.length then ((observe st).splitOn "|classes:").headD "" ++ "|classes:?" else observe st) :: outs)
      else if op.startsWith "L" then
        let t := close (parseTerm (op.drop 1).toString)
        match repIdx st.orc t with
        | some i =>
          let u := st.orc.univ[i]!
          let red := redundantNames st.orc u
          -- non-redundant free slots of the probe = those of the equal element (class slots)
          (st, s!"rep:1|slots:{(fv u).length - red.length}" :: outs)
        | none => (st, "rep:0|slots:?" :: outs)
      else (st, outs)) (st0, [])
    ";".intercalate outs.reverse
  | _ => "bad-case"

end SV.Drv
