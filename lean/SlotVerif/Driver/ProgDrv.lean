import SlotVerif.Model.Progress
import SlotVerif.Driver.Util
/-! `prog` protocol (C13/C15): per step `c,l,s,y>c,l,s,y:ev.ev` — is the step consistent with the event model? -/
namespace SV.Drv
open SV

def parseMeasure (s : String) : Measure :=
  match (s.splitOn ",").map nat! with
  | [c, l, sl, y] => ⟨c, l, sl, y⟩
  | _ => ⟨0, 0, 0, 0⟩

def parseEvs (s : String) : List Ev :=
  (s.splitOn ".").filterMap fun
    | "alloc" => some .alloc | "merge" => some .merge | "shrink" => some .shrink | "addsym" => some .addsym
    | _ => none

def progRun (body : String) : String :=
  ";".intercalate ((body.splitOn ";").filter (· ≠ "") |>.map fun step =>
    match step.splitOn ":" with
    | [ms, evs] =>
      match ms.splitOn ">" with
      | [a, b] => showBool (Measure.stepOK (parseEvs evs) (parseMeasure a) (parseMeasure b))
      | _ => "bad"
    | _ => "bad")

end SV.Drv
