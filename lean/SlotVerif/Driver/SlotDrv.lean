import SlotVerif.Model.Slot
import SlotVerif.Model.Parse
import SlotVerif.Driver.Util
/-! `slot` protocol: interleavings of fresh / numeric / named / display in one thread. -/
namespace SV.Drv
open SV SV.Slot

def decodeCps (s : String) : List Char :=
  if s = "-" then [] else (s.splitOn ".").map fun x => Char.ofNat (nat! x)

def encodeCps (l : List Char) : String :=
  if l.isEmpty then "-" else ".".intercalate (l.map fun c => toString c.toNat)

structure SlotSt where
  tab : Tab := {}
  issued : Array Nat := #[]

def showSlot (t : Tab) (c : Nat) : String :=
  match display t c with
  | some txt => s!"{c}/{encodeCps txt}"
  | none => s!"{c}/panic"

def slotStep (s : SlotSt) (op : List String) : SlotSt × String :=
  match op with
  | ["fresh"] =>
    match fresh s.tab with
    | (.ok c, t) => ({ tab := t, issued := s.issued.push c }, showSlot t c)
    | (.panic, t) => ({ s with tab := t }, "panic")
  | ["num", u] =>
    match numeric (nat! u) with
    | .ok c => ({ s with issued := s.issued.push c }, showSlot s.tab c)
    | .panic => (s, "panic")
  | ["nam", cps] =>
    match named s.tab (decodeCps cps) with
    | (.ok c, t) => ({ tab := t, issued := s.issued.push c }, showSlot t c)
    | (.panic, t) => ({ s with tab := t }, "panic")
  | ["prs", cps] =>
    -- the name reaches the table through the parser (`RecExpr::parse("(var $<name>)")`): same slot as `Slot::named`,
    -- provided the text is one identifier for the tokenizer; otherwise a parse error
    let txt := decodeCps cps
    if txt.isEmpty || !(txt.all Parse.identChar) then (s, "err")
    else match named s.tab txt with
      | (.ok c, t) => ({ tab := t, issued := s.issued.push c }, showSlot t c)
      | (.panic, t) => ({ s with tab := t }, "panic")
  | ["reprs", i] =>
    -- print the i-th issued slot and parse the text back through the parser
    match s.issued[nat! i]? with
    | some c =>
      match display s.tab c with
      | some txt =>
        if txt.isEmpty || !(txt.all Parse.identChar) then (s, "err")
        else match named s.tab txt with
          | (.ok c', t) => ({ s with tab := t }, showSlot t c')
          | (.panic, t) => ({ s with tab := t }, "panic")
      | none => (s, "panic")
    | none => (s, "none")
  | ["disp", i] =>
    match s.issued[nat! i]? with
    | some c => (s, showSlot s.tab c)
    | none => (s, "none")
  | ["reparse", i] =>
    -- print the i-th issued slot and parse the text back
    match s.issued[nat! i]? with
    | some c =>
      match display s.tab c with
      | some txt =>
        match named s.tab txt with
        | (.ok c', t) => ({ s with tab := t }, showSlot t c')
        | (.panic, t) => ({ s with tab := t }, "panic")
      | none => (s, "panic")
    | none => (s, "none")
  | ["eqm"] =>
    let l := s.issued.toList
    let rec go : List Nat → String
      | [] => ""
      | a :: t => String.join (t.map fun b => if a = b then "1" else "0") ++ go t
    (s, "m" ++ go l)
  | _ => (s, "bad-op")

def slotRun (body : String) : String :=
  let ops := (body.splitOn ";").map words |>.filter (· ≠ [])
  let (_, outs) := ops.foldl (fun (acc : SlotSt × List String) op =>
    let (s', o) := slotStep acc.1 op; (s', o :: acc.2)) ({}, [])
  ";".intercalate outs.reverse

end SV.Drv
