/-! Line-protocol helpers shared by all driver modules (import-free). -/
namespace SV.Drv

def words (s : String) : List String := (s.splitOn " ").filter (· ≠ "")

def nat! (s : String) : Nat := s.toNat?.getD 0

def showOpt : Option Nat → String
  | none => "none"
  | some v => s!"some:{v}"

def showList (l : List Nat) : String := "[" ++ ",".intercalate (l.map toString) ++ "]"

def showPairs (l : List (Nat × Nat)) : String :=
  "[" ++ ",".intercalate (l.map fun p => s!"{p.1}>{p.2}") ++ "]"

def showBool (b : Bool) : String := if b then "1" else "0"

/-- sort + dedup a list of naturals (sets that came out of a hash set / VecSet). -/
def insertSorted (x : Nat) : List Nat → List Nat
  | [] => [x]
  | y :: t => if x < y then x :: y :: t else if x = y then y :: t else y :: insertSorted x t
def sortDedup (l : List Nat) : List Nat := l.foldl (fun acc x => insertSorted x acc) []

end SV.Drv
