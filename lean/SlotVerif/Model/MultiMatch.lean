import SlotVerif.Model.EMatch
/-
Model of `/repo/src/rewrite/multipat.rs` (`multi_ematch` and its helpers: the slot union-find with
disequality constraints) on a dumped state.  Hash maps/sets are association lists / lists; the
correspondence compares the *sets* of resulting substitutions modulo the names of flexible (fresh)
slots, as for the single-pattern matcher.
Import-free apart from the matcher model (for `enodesApplied`, `nullify`, `freshCode`).
-/
namespace SV
namespace MultiMatch
open SlotMap EMatch

structure MS where
  pslots : List Nat := []
  diseq : List (Nat × List Nat) := []
  subst : List (String × AppId) := []
  uf : List (Nat × Nat) := []
deriving Repr

def assocGet {α} (l : List (Nat × α)) (x : Nat) : Option α := (l.find? (·.1 == x)).map (·.2)

/-- `state_find` (fuel: the union-find is acyclic, `uf.length + 1` suffices) -/
def stateFind (uf : List (Nat × Nat)) : Nat → Nat → Nat
  | 0, x => x
  | f + 1, x => match assocGet uf x with
    | some y => stateFind uf f y
    | none => x

def find (st : MS) (x : Nat) : Nat := stateFind st.uf (st.uf.length + 1) x

/-- `state_appid_find` -/
def appFind (st : MS) (a : AppId) : AppId := { a with m := a.m.map fun p => (p.1, find st p.2) }

def substGet (st : MS) (v : String) : Option AppId := (st.subst.find? (·.1 == v)).map (·.2)

def substSet (s : List (String × AppId)) (v : String) (a : AppId) : List (String × AppId) :=
  if s.any (·.1 == v) then s.map fun b => if b.1 == v then (v, a) else b else s ++ [(v, a)]

/-- `entry(x).or_default().extend(vs)` -/
def diseqExtend (d : List (Nat × List Nat)) (x : Nat) (vs : List Nat) : List (Nat × List Nat) :=
  if d.any (·.1 == x) then d.map fun e => if e.1 == x then (x, e.2 ++ vs) else e else d ++ [(x, vs)]

/-- `add_disjointness_constraint` -/
def addDisjoint (set : List Nat) (st : MS) : MS :=
  { st with diseq := set.foldl (fun d x => diseqExtend d x (set.filter (· != x))) st.diseq }

/-- `update_state` -/
def updateState (st : MS) : MS :=
  let subst := st.subst.map fun b => (b.1, appFind st b.2)
  let diseq := st.diseq.foldl (fun d e => diseqExtend d (find st e.1) (e.2.map (find st))) []
  { st with subst := subst, diseq := diseq }

/-- `union_slot` -/
def unionSlot (x y : Nat) (st : MS) : Option MS :=
  let x := find st x
  let y := find st y
  if x == y then some st else
  if ((assocGet st.diseq x).getD []).contains y || ((assocGet st.diseq y).getD []).contains x then none else
  let (x, y) := if st.pslots.contains x then (y, x) else (x, y)
  if st.pslots.contains x then none else
  some (updateState { st with uf := st.uf ++ [(x, y)] })

/-- `matches_raw` -/
def matchesRaw (n1 n2 : Node) (st : MS) : Option MS :=
  let a := nullify n1
  let b := nullify n2
  if (Node.weakShape a).1 != (Node.weakShape b).1 then none else
  ((Node.allOcc a).zip (Node.allOcc b)).foldl (fun (acc : Option MS) p =>
    acc.bind fun st =>
      let st1 := if st.pslots.contains p.1 then st else { st with pslots := st.pslots ++ [p.1] }
      unionSlot p.1 p.2 st1) (some st)

/-- `unify`; the fuel bounds the number of slots that still have to be paired -/
def unify (s : Snap) : Nat → AppId → AppId → MS → List MS
  | 0, _, _, _ => []
  | f + 1, x, y, st =>
    let x := appFind st x
    let y := appFind st y
    if x.id != y.id then [] else
    let xs := Node.dedupSorted (valuesVec x.m)
    let ys := Node.dedupSorted (valuesVec y.m)
    let xonly := xs.filter fun v => !ys.contains v
    let yonly := ys.filter fun v => !xs.contains v
    if xonly.length != yonly.length then [] else
    match xonly with
    | [] => if s.eq x y == some true then [st] else []
    | xx :: _ =>
      yonly.flatMap fun yy =>
        match unionSlot xx yy st with
        | some st' => unify s f x y st'
        | none => []

/-- `extend_subst` -/
def extendSubst (s : Snap) (pv : String) (x : AppId) (st : MS) : List MS :=
  match substGet st pv with
  | some y => unify s (x.m.length + 2) x y st
  | none => [{ st with subst := substSet st.subst pv (appFind st x) }]

/-- `multi_ematch_step_class` -/
def stepClass (s : Snap) (pv : String) (st : MS) (k : Nat) : List MS × Nat :=
  if (substGet st pv).isSome then ([st], k) else
  s.ids.foldl (fun (acc : List MS × Nat) i =>
    let slots := match s.cls i with | some c => c.slots | none => []
    let m : SlotMap := (slots.zipIdx).foldl (fun m p => insert m p.1 (freshCode (acc.2 + p.2))) []
    (acc.1 ++ [{ st with subst := substSet st.subst pv { id := i, m := m } }], acc.2 + slots.length)) ([], k)

/-- `multi_ematch_step_node` -/
def stepNode (s : Snap) (pv : String) (node : Node) (children : List String) (st : MS) (k : Nat) : List MS × Nat :=
  match substGet st pv with
  | none => ([], k)
  | some gid =>
    let (nodes, k1) := enodesApplied s gid k
    (nodes.flatMap fun n =>
      let st1 := addDisjoint (dedupKeep (Node.allOcc n)) st
      match matchesRaw node n st1 with
      | none => []
      | some st2 =>
        (children.zip (Node.appOcc n)).foldl (fun (accum : List MS) cg =>
          accum.flatMap fun stx => extendSubst s cg.1 cg.2 stx) [st2], k1)

/-- `multi_ematch` -/
def multiEmatch (s : Snap) (pats : List (String × Node × List String)) (k : Nat) : List (List (String × AppId)) × Nat :=
  let (sts, k') := pats.foldl (fun (acc : List MS × Nat) pat =>
    acc.1.foldl (fun (a : List MS × Nat) st =>
      let (cls, k1) := stepClass s pat.1 st a.2
      cls.foldl (fun (b : List MS × Nat) st1 =>
        let (r, k2) := stepNode s pat.1 pat.2.1 pat.2.2 st1 b.2
        (b.1 ++ r, k2)) (a.1, k1)) ([], acc.2)) ([{}], k)
  (sts.map fun st => st.subst.map fun b => (b.1, appFind st b.2), k')

end MultiMatch
end SV
