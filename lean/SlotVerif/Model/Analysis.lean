import SlotVerif.Model.Extract
/-
C14 model: the three analyses of the harness (`min-size`, `const` = constant folding over 𝔽₇, `min-depth`)
as `make`/`merge`, and the join-fixpoint predicate on a dumped state whose classes carry their datum.
Import-free apart from the extraction model.
-/
namespace SV
namespace Analysis

inductive Kind where
  | minSize | const | minDepth
deriving DecidableEq, Repr

/-- data: `none` = bottom of the const analysis (not a constant); sizes/depths are `some n` -/
abbrev Data := Option Nat

def parseData (k : Kind) (s : String) : Data :=
  match k with
  | .const => if s.startsWith "some:" then (s.drop 5).toString.toNat? else none
  | _ => s.toNat?

/-- `merge` -/
def merge (k : Kind) (a b : Data) : Data :=
  match k, a, b with
  | .const, some x, _ => some x
  | .const, none, y => y
  | _, some x, some y => some (min x y)
  | _, some x, none => some x
  | _, none, y => y

def litNat (n : Node) : Option Nat :=
  match n.fields with
  | [.lit v] => v.toNat?
  | _ => none

/-- `make` from the children's current data -/
def make (k : Kind) (n : Node) (kids : List Data) : Data :=
  match k with
  | .minSize => (kids.mapM id).map fun ks => 1 + ks.foldl (· + ·) 0
  | .minDepth => (kids.mapM id).map fun ks => 1 + ks.foldl max 0
  | .const =>
    match n.v, kids with
    | 15, _ => (litNat n).map (· % 7)
    | 4, [some a, some b] => some ((a + b) % 7)
    | 5, [some a, some b] => some ((a * b) % 7)
    | _, _ => none

def dataOf (k : Kind) (s : Snap) (i : Nat) : Data := (s.cls i).bind fun c => parseData k c.data

/-- join over the e-nodes of a class of `make` from the children's current data -/
def joinOfClass (k : Kind) (s : Snap) (c : SClass) : Data :=
  c.nodes.foldl (fun acc e => merge k acc (make k e.1 ((Node.appOcc e.1).map fun a => dataOf k s a.id))) none

/-- every live class carries exactly the join of `make` over its e-nodes -/
def isFixpoint (k : Kind) (s : Snap) : Bool :=
  s.classes.all fun c => !s.isAlive c.id || (parseData k c.data == joinOfClass k s c)

/-- first live class whose datum is not the join (for replays) -/
def firstBad (k : Kind) (s : Snap) : Option Nat :=
  (s.classes.find? fun c => s.isAlive c.id && !(parseData k c.data == joinOfClass k s c)).map (·.id)

end Analysis
end SV
