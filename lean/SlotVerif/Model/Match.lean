import SlotVerif.Model.Snapshot
/-
C05 checker: does a substitution returned by the matcher denote a term that is already represented?
`lookupPat` instantiates the pattern bottom-up on a dumped state using only the snapshot model's
read-only `lookup` — nothing is inserted, and the implementation's own lookup is not consulted.
Import-free apart from the snapshot model.
-/
namespace SV

inductive MPat where
  | node (n : Node) (cs : List MPat)
  | pvar (v : String)
deriving Repr

namespace MPat

abbrev Subst := List (String × AppId)

def Subst.get (σ : Subst) (v : String) : Option AppId := (σ.find? (·.1 == v)).map (·.2)

mutual
/-- the class invocation of the instantiated pattern, if it is represented -/
def lookupPat (s : Snap) (σ : Subst) : MPat → Option AppId
  | .pvar v => σ.get v
  | .node n cs =>
    match lookupPats s σ cs with
    | none => none
    | some apps => s.lookup (Snap.withApps n apps)
def lookupPats (s : Snap) (σ : Subst) : List MPat → Option (List AppId)
  | [] => some []
  | p :: ps =>
    match lookupPat s σ p, lookupPats s σ ps with
    | some a, some as => some (a :: as)
    | _, _ => none
end

mutual
def pvars : MPat → List String
  | .pvar v => [v]
  | .node _ cs => pvarsL cs
def pvarsL : List MPat → List String
  | [] => []
  | p :: ps => pvars p ++ pvarsL ps
end

/-- the checker: the instance is represented -/
def checkMatch (s : Snap) (p : MPat) (σ : Subst) : Bool := (lookupPat s σ p).isSome

/-- a multi-pattern equation `?v == node(?c1 .. ?ck)` holds between the bound classes -/
def checkEquation (s : Snap) (σ : Subst) (v : String) (n : Node) (cs : List String) : Bool :=
  match σ.get v, cs.mapM σ.get with
  | some a, some apps =>
    (match s.lookup (Snap.withApps n apps) with
     | some b => s.eq a b == some true
     | none => false)
  | _, _ => false

end MPat
end SV
