import SlotVerif.Model.Node
import SlotVerif.Model.Group
/-
M/V4 — the snapshot model: the read-only functions of `/repo/src/egraph/{find,mod,add}.rs`
evaluated on a dump of the private e-graph state (hook `EGraph::verif_snapshot`).
`find`, `find_enode`, group-compatible variants, `shape`, `lookup`, `eq`, `is_alive`, `ids`
are modelled function-for-function (default build: `compose` = `compose_partial`).
Import-free apart from the node and group models.
-/
namespace SV

structure SClass where
  id : Nat
  slots : List Nat                   -- sorted
  nodes : List (Node × SlotMap)      -- (shape, bijection shape-slots → class-slots)
  gens : List Perm
  syn : Node
  data : String
deriving Repr

structure Snap where
  uf : List AppId                    -- index = class id
  classes : List SClass
  pending : List (Node × String) := []
deriving Repr

namespace Snap
open SlotMap

def cls (s : Snap) (i : Nat) : Option SClass := s.classes.find? (·.id == i)

/-- `unionfind_get_impl` without the write-back (path compression is modelled separately) -/
def ufGet (s : Snap) : Nat → Nat → Option AppId
  | 0, _ => none
  | fuel + 1, i =>
    match s.uf[i]? with
    | none => none
    | some entry =>
      if entry.id = i then some entry
      else match ufGet s fuel entry.id with
        | none => none
        | some leader => some { id := leader.id, m := composePartial leader.m entry.m }

/-- `find_applied_id` -/
def find (s : Snap) (a : AppId) : Option AppId :=
  (ufGet s (s.uf.length + 1) a.id).map fun l => { id := l.id, m := composePartial l.m a.m }

/-- `unionfind_get_impl` *with* the write-back (`map[i.0] = new`): the result and the union-find table after
path compression; every entry on the path from `i` to its leader is overwritten by its composed map -/
def ufGetW (uf : List AppId) : Nat → Nat → Option (AppId × List AppId)
  | 0, _ => none
  | fuel + 1, i =>
    match uf[i]? with
    | none => none
    | some entry =>
      if entry.id = i then some (entry, uf)
      else match ufGetW uf fuel entry.id with
        | none => none
        | some (leader, uf') =>
          let new : AppId := { id := leader.id, m := composePartial leader.m entry.m }
          some (new, uf'.set i new)

/-- `find_applied_id` with its effect on the union-find table -/
def findW (s : Snap) (a : AppId) : Option (AppId × Snap) :=
  (ufGetW s.uf (s.uf.length + 1) a.id).map fun (l, uf') =>
    ({ id := l.id, m := composePartial l.m a.m }, { s with uf := uf' })

/-- a sequence of `unionfind_get` calls (what `unionfind_iter`, `find_enode`, … amount to for the table) -/
def compressAll (uf : List AppId) (ids : List Nat) : Option (List AppId) :=
  ids.foldl (fun acc i => acc.bind fun u => (ufGetW u (u.length + 1) i).map (·.2)) (some uf)

/-- `is_alive` -/
def isAlive (s : Snap) (i : Nat) : Bool :=
  match s.uf[i]? with
  | some e => e.id == i
  | none => false

/-- `ids()` -/
def ids (s : Snap) : List Nat := (List.range s.uf.length).filter (isAlive s)

/-- `find_enode` -/
def findNode (s : Snap) (n : Node) : Option Node :=
  (n.fields.mapM (go s)).map fun fs => { n with fields := fs }
where
  go (s : Snap) : Field → Option Field
    | .slot x => some (.slot x)
    | .app a => (find s a).map .app
    | .bind x f => (go s f).map (.bind x)
    | .lit v => some (.lit v)

def group (c : SClass) : Grp.G := Grp.mk (identity c.slots) c.gens

/-- `chain_pai_pp`: apply a class symmetry to an invocation -/
def applyPerm (p : Perm) (a : AppId) : AppId := { a with m := composePartial p a.m }

/-- cartesian product in the order of `cartesian` (first index varies fastest) -/
def cartesian : List (List Perm) → List (List Perm)
  | [] => [[]]
  | l :: ls => (cartesian ls).flatMap fun rest => l.map fun x => x :: rest

def replaceApps : Field → List AppId → Field × List AppId
  | .slot x, as => (.slot x, as)
  | .app a, as => (match as with | b :: rest => (.app b, rest) | [] => (.app a, []))
  | .bind x f, as => let (f', rest) := replaceApps f as; (.bind x f', rest)
  | .lit v, as => (.lit v, as)

def withApps (n : Node) (as : List AppId) : Node :=
  { n with fields := (n.fields.foldl (fun (acc : List Field × List AppId) f =>
      let (f', rest) := replaceApps f acc.2; (acc.1 ++ [f'], rest)) ([], as)).1 }

/-- `get_group_compatible_variants` (on an up-to-date e-node) -/
def variants (s : Snap) (n : Node) : List Node :=
  let apps := Node.appOcc n
  let groups := apps.map fun a =>
    match cls s a.id with
    | some c => Grp.allPerms (group c)
    | none => [[]]
  if groups.all (fun g => g.length ≤ 1) then [n]
  else (cartesian groups).map fun ps => withApps n ((apps.zip ps).map fun (a, p) => applyPerm p a)

def lexLt : List Nat → List Nat → Bool
  | [], [] => false
  | [], _ :: _ => true
  | _ :: _, [] => false
  | a :: as, b :: bs => if a < b then true else if b < a then false else lexLt as bs

/-- `proven_proven_pre_shape`: canonicalise the children, take the variant whose weak shape has
the lexicographically smallest slot-occurrence list (first minimal one) -/
def preShape (s : Snap) (n : Node) : Option Node :=
  match findNode s n with
  | none => none
  | some n' =>
    match variants s n' with
    | [] => none
    | v :: vs => some (vs.foldl (fun best x =>
        if lexLt (Node.allOcc (Node.weakShape x).1) (Node.allOcc (Node.weakShape best).1) then x else best) v)

/-- `shape` -/
def shape (s : Snap) (n : Node) : Option (Node × SlotMap) := (preShape s n).map Node.weakShape

/-- `lookup_internal` through the hashcons (= the class that stores the shape) -/
def lookupShape (s : Snap) (sh : Node) (nbij : SlotMap) : Option AppId :=
  s.classes.findSome? fun c =>
    match c.nodes.find? (·.1 == sh) with
    | none => none
    | some (_, cnbij) =>
      let out := composePartial (inverse cnbij) nbij
      some { id := c.id, m := out.filter fun p => c.slots.contains p.1 }

/-- `lookup` -/
def lookup (s : Snap) (n : Node) : Option AppId :=
  match shape s n with
  | none => none
  | some (sh, bij) => lookupShape s sh bij

/-- `eq` -/
def eq (s : Snap) (a b : AppId) : Option Bool :=
  match find s a, find s b with
  | some a', some b' =>
    if a'.id ≠ b'.id then some false
    else if Node.dedupSorted (valuesVec a'.m) ≠ Node.dedupSorted (valuesVec b'.m) then some false
    else match cls s a'.id with
      | none => none
      | some c => Grp.contains (group c) (composePartial a'.m (inverse b'.m))
  | _, _ => none

/-- the e-nodes of a class as they exist in the class (`enodes`) -/
def enodes (c : SClass) : List (Option Node) := c.nodes.map fun (sh, bij) => Node.applySlotmap sh bij

end Snap
end SV
