import SlotVerif.Model.Term
/-
The specification the e-graph properties talk about: `Cong E`, the smallest congruence on
(locally nameless, hence alpha-quotiented) terms that contains the asserted equations `E` and
is closed under injective renaming of free slots and under congruence, also under binders.
Short on purpose.  Import-free apart from the term model.
-/
namespace SV
open Term

/-- `σ` maps names to names (never produces a de Bruijn code) -/
def NameMap (σ : Nat → Nat) : Prop := ∀ x, isBvar x = false → isBvar (σ x) = false

/-- `σ` is injective on the names in `l` -/
def InjOn (σ : Nat → Nat) (l : List Nat) : Prop := ∀ x ∈ l, ∀ y ∈ l, σ x = σ y → x = y

/-- `names` can be used to open the children of two terms: genuine names, pairwise distinct,
occurring in neither term -/
def FreshFor (names : List Nat) (t u : Term) : Prop :=
  names.Nodup ∧ ∀ a ∈ names, isBvar a = false ∧ a ∉ freeOcc t ∧ a ∉ freeOcc u

mutual
inductive Cong (E : List (Term × Term)) : Term → Term → Prop where
  /-- an asserted equation -/
  | ax {l r : Term} : (l, r) ∈ E → Cong E l r
  | refl (t : Term) : Cong E t t
  | symm {t u : Term} : Cong E t u → Cong E u t
  | trans {t u v : Term} : Cong E t u → Cong E u v → Cong E t v
  /-- injective renaming of the free slots of both sides -/
  | ren {t u : Term} (σ : Nat → Nat) : NameMap σ → InjOn σ (freeOcc t ++ freeOcc u) →
      Cong E t u → Cong E (mapFree σ t) (mapFree σ u)
  /-- congruence: same operator, literals, free slots and binder structure; children pairwise
  related after opening the binders of the node with fresh names -/
  | congr (n : Node) (cs cs' : List Term) (names : List Nat) :
      FreshFor names (.mk n cs) (.mk n cs') →
      CongL E names (childDepths n) cs cs' → Cong E (.mk n cs) (.mk n cs')
inductive CongL (E : List (Term × Term)) : List Nat → List Nat → List Term → List Term → Prop where
  | nil (names : List Nat) : CongL E names [] [] []
  | cons {names : List Nat} {d : Nat} {ds : List Nat} {t u : Term} {ts us : List Term} :
      d ≤ names.length →
      Cong E (openMany (names.take d) t) (openMany (names.take d) u) →
      CongL E names ds ts us → CongL E names (d :: ds) (t :: ts) (u :: us)
end

/-- a slot `s` of `t` is redundant: `t` does not depend on it -/
def Redundant (E : List (Term × Term)) (t : Term) (s : Nat) : Prop :=
  s ∈ freeOcc t ∧ ∀ s', isBvar s' = false → s' ∉ freeOcc t →
    Cong E t (mapFree (fun x => if x = s then s' else x) t)

/-- `π` (a permutation of the free slots of `t`) is a symmetry of `t` -/
def IsSym (E : List (Term × Term)) (t : Term) (π : Nat → Nat) : Prop :=
  NameMap π ∧ InjOn π (freeOcc t) ∧ (∀ x ∈ freeOcc t, π x ∈ freeOcc t) ∧ Cong E t (mapFree π t)

end SV
