/-
Model of the control loops `Runner::run`/`run_one` (`/repo/src/run/runner.rs`) and `run_eqsat`
(`/repo/src/run/run.rs`) as functions of what each iteration observes:
did `apply_rewrites` report progress, which hook (if any) failed, the node count, whether the time
limit was exceeded.  The order is the documented one: rewrites, hooks, limits, saturation.
Import-free.
-/
namespace SV
namespace Runner

inductive Stop where
  | saturated | iterLimit | timeLimit | nodeLimit | other (hook : Nat)
deriving DecidableEq, Repr

structure Obs where
  progress : Bool          -- return value of apply_rewrites in this iteration
  hookErr : Option Nat     -- index of the first hook that returned Err, if any
  nodes : Nat              -- total_number_of_nodes() after the rewrites
  overTime : Bool          -- elapsed > time_limit
deriving Repr

structure Limits where
  iterLimit : Nat
  nodeLimit : Nat

/-- `run_one`: the stop reason decided in iteration number `k` (= `self.iterations.len()` before the push) -/
def runOne (lim : Limits) (k : Nat) (o : Obs) : Option Stop :=
  match o.hookErr with
  | some h => some (.other h)
  | none =>
    if k > lim.iterLimit then some .iterLimit
    else if o.nodes > lim.nodeLimit then some .nodeLimit
    else if o.overTime then some .timeLimit
    else if !o.progress then some .saturated
    else none

/-- `Runner::run` on a stream of per-iteration observations: (stop reason, number of iterations);
`none` if the stream ends before the loop stops -/
def run (lim : Limits) : Nat → List Obs → Option (Stop × Nat)
  | _, [] => none
  | k, o :: rest =>
    match runOne lim k o with
    | some s => some (s, k + 1)
    | none => run lim (k + 1) rest

/-- `run_eqsat` (hook, then saturation, then iteration limit, then time limit); returns the `iterations` counter -/
def runEqsat (iterLimit : Nat) : Nat → List Obs → Option (Stop × Nat)
  | _, [] => none
  | k, o :: rest =>
    match o.hookErr with
    | some h => some (.other h, k)
    | none =>
      if !o.progress then some (.saturated, k)
      else if k ≥ iterLimit then some (.iterLimit, k)
      else if o.overTime then some (.timeLimit, k)
      else runEqsat iterLimit (k + 1) rest

end Runner
end SV
