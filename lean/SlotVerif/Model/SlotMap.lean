/-
Model of `/repo/src/slotmap.rs` (struct `SlotMap`): a finite map Slot → Slot stored as a
vector of pairs sorted by key.  Slots are their private `u32` code, modelled as `Nat`.
One definition per Rust method; `&mut self` becomes a returned value, the binary search
becomes a linear scan of the (sorted) list, `HashSet` results become lists.
Import-free on purpose: this file is linked into the `svdriver` executable.
-/
namespace SV

/-- `SlotMap.map`: pairs, invariant `WF` = keys strictly increasing. -/
abbrev SlotMap := List (Nat × Nat)

namespace SlotMap

/-- `SlotMap::insert`: overwrite if present (`Ok(i)`), else insert at the sorted position (`Err(i)`). -/
def insert : SlotMap → Nat → Nat → SlotMap
  | [], k, v => [(k, v)]
  | (a, b) :: t, k, v =>
    if k < a then (k, v) :: (a, b) :: t
    else if k = a then (k, v) :: t
    else (a, b) :: insert t k v

/-- `SlotMap::get`. -/
def get : SlotMap → Nat → Option Nat
  | [], _ => none
  | (a, b) :: t, k => if k = a then some b else get t k

/-- `SlotMap::remove`. -/
def remove : SlotMap → Nat → SlotMap
  | [], _ => []
  | (a, b) :: t, k => if k = a then t else (a, b) :: remove t k

def containsKey (m : SlotMap) (k : Nat) : Bool := (get m k).isSome

/-- `keys_vec` / `keys()` (the set, listed in iteration order). -/
def keys (m : SlotMap) : List Nat := m.map (·.1)
/-- `values_vec` (with repetitions, in key order). -/
def valuesVec (m : SlotMap) : List Nat := m.map (·.2)

/-- `FromIterator`/`from_pairs`/`From<[_;N]>`: fold of `insert` (later pairs overwrite). -/
def ofPairs (l : List (Nat × Nat)) : SlotMap := l.foldl (fun acc p => insert acc p.1 p.2) []

/-- `SlotMap::inverse` (default build: no bijection assert). -/
def inverse (m : SlotMap) : SlotMap := m.foldl (fun acc p => insert acc p.2 p.1) []

/-- `is_bijection`: no value occurs twice. -/
def isBijection : SlotMap → Bool
  | [] => true
  | (_, b) :: t => !(t.any (fun p => p.2 == b)) && isBijection t

/-- set equality of two slot lists (used for `keys() == values()`). -/
def sameSet (a b : List Nat) : Bool := a.all (b.contains ·) && b.all (a.contains ·)

/-- `is_perm`. -/
def isPerm (m : SlotMap) : Bool := isBijection m && sameSet (keys m) (valuesVec m)

/-- `compose_partial` (= `compose` when `checks` is off). -/
def composePartial (m o : SlotMap) : SlotMap :=
  m.foldl (fun acc p => match get o p.2 with
    | some z => insert acc p.1 z
    | none => acc) []

/-- `compose_fresh`, threading the fresh counter `f` (the `u32` code of the next fresh slot). -/
def composeFresh (m o : SlotMap) (f : Nat) : SlotMap × Nat :=
  m.foldl (fun (acc : SlotMap × Nat) p => match get o p.2 with
    | some z => (insert acc.1 p.1 z, acc.2)
    | none => (insert acc.1 p.1 acc.2, acc.2 + 4)) ([], f)

/-- `identity(set)`. -/
def identity (s : List Nat) : SlotMap := s.foldl (fun acc x => insert acc x x) []

/-- `bijection_from_fresh_to(set)`: iterates the set in ascending order (VecSet). -/
def bijectionFromFreshTo (s : List Nat) (f : Nat) : SlotMap × Nat :=
  s.foldl (fun (acc : SlotMap × Nat) x => (insert acc.1 acc.2 x, acc.2 + 4)) ([], f)

/-- `union` (default build: later map wins on conflicts). -/
def union (m o : SlotMap) : SlotMap := o.foldl (fun acc p => insert acc p.1 p.2) m

/-- `try_union`: `none` on the first conflicting key. -/
def tryUnion (m o : SlotMap) : Option SlotMap :=
  o.foldl (fun (acc : Option SlotMap) p => match acc with
    | none => none
    | some a => match get a p.1 with
      | some z => if p.2 = z then some (insert a p.1 p.2) else none
      | none => some (insert a p.1 p.2)) (some m)

/-- `Index::index`: `none` models the panic "index missing". -/
def index (m : SlotMap) (k : Nat) : Option Nat := get m k

/-- derived `Ord` on the pair vector: lexicographic on (key, value) pairs, shorter prefix first. -/
def cmpLex : SlotMap → SlotMap → Ordering
  | [], [] => .eq
  | [], _ :: _ => .lt
  | _ :: _, [] => .gt
  | (a, b) :: t, (c, d) :: u =>
    if a < c then .lt else if c < a then .gt
    else if b < d then .lt else if d < b then .gt
    else cmpLex t u

/-- the invariant the Rust comments state: sorted by key, keys unique. -/
def WF (m : SlotMap) : Prop := m.Pairwise (fun a b => a.1 < b.1)

/-- decidable version used by the driver to report malformed states. -/
def wfb : SlotMap → Bool
  | [] => true
  | [_] => true
  | a :: b :: t => a.1 < b.1 && wfb (b :: t)

end SlotMap
end SV
