import SlotVerif.Model.SlotMap
/-
Model of `/repo/src/group/mod.rs`: a stabilizer chain over permutations represented as slot
maps.  Hash sets / hash maps become duplicate-free lists (iteration order = list order); every
observable the property talks about (membership, size, the *set* of elements, orbits, growth)
depends only on the generated subgroup, not on that order.  `Group::new` recurses on a fuel
argument (the chain is at most |Ω| long).  Import-free apart from the slot-map model.
-/
namespace SV

abbrev Perm := SlotMap

namespace Grp
open SlotMap

/-- `x.compose(y)`: first `x`, then `y`. -/
def comp (x y : Perm) : Perm := composePartial x y

def insertNew (p : Perm) (l : List Perm) : List Perm := if l.contains p then l else l ++ [p]

/-- orbit tree: point ↦ a permutation mapping `stab` to that point -/
abbrev OT := List (Nat × Perm)

def OT.get (ot : OT) (x : Nat) : Option Perm := (ot.find? (·.1 == x)).map (·.2)
def OT.has (ot : OT) (x : Nat) : Bool := ot.any (·.1 == x)

inductive G where
  | triv (identity : Perm)
  | next (identity : Perm) (stab : Nat) (ot : OT) (g : G)
deriving Repr

def G.identity : G → Perm
  | .triv i => i
  | .next i _ _ _ => i

/-- `find_lowest_nonstab` -/
def lowestNonstab (gens : List Perm) : Option Nat :=
  gens.foldl (fun acc g => g.foldl (fun acc p =>
    if p.1 ≠ p.2 then (match acc with | none => some p.1 | some m => some (min m p.1)) else acc) acc) none

/-- one pass of the inner loops of `build_ot` for one generator, over a snapshot of the tree -/
def otStepGen (stab : Nat) (g : Perm) (snapshot : OT) (ot : OT) : OT :=
  snapshot.foldl (fun ot e =>
    let new := comp e.2 g
    match get new stab with
    | some target => if OT.has ot target then ot else ot ++ [(target, new)]
    | none => ot) ot

def otRound (stab : Nat) (gens : List Perm) (ot : OT) : OT :=
  gens.foldl (fun ot g => otStepGen stab g ot ot) ot

/-- `build_ot`: rounds until the tree stops growing (fuel = a bound on the number of rounds) -/
def buildOt (stab : Nat) (identity : Perm) (gens : List Perm) : Nat → OT → OT
  | 0, ot => ot
  | fuel + 1, ot =>
    let ot' := otRound stab gens ot
    if ot'.length = ot.length then ot' else buildOt stab identity gens fuel ot'

def buildOt0 (stab : Nat) (identity : Perm) (gens : List Perm) : OT :=
  buildOt stab identity gens (identity.length + 1) [(stab, identity)]

/-- `schreiers_lemma` -/
def schreier (stab : Nat) (ot : OT) (gens : List Perm) : List Perm :=
  ot.foldl (fun out e => gens.foldl (fun out s =>
    let rs := comp e.2 s
    match (get rs stab).bind (OT.get ot) with
    | some r2 => insertNew (comp rs (inverse r2)) out
    | none => out) out) []

/-- `Group::new` -/
def new (identity : Perm) : Nat → List Perm → G
  | 0, _ => .triv identity
  | fuel + 1, gens =>
    match lowestNonstab gens with
    | none => .triv identity
    | some s =>
      let ot := buildOt0 s identity gens
      .next identity s ot (new identity fuel (schreier s ot gens))

def mk (identity : Perm) (gens : List Perm) : G := new identity (identity.length + 1) gens

/-- `contains`; `none` models the `Index` panic when `p` lacks the key `stab`. -/
def contains : G → Perm → Option Bool
  | .triv _, p => some (p.all fun e => e.1 == e.2)
  | .next _ stab ot g, p =>
    match get p stab with
    | none => none
    | some y =>
      match OT.get ot y with
      | none => some false
      | some part => contains g (comp p (inverse part))

/-- `all_perms` -/
def allPerms : G → List Perm
  | .triv i => [i]
  | .next _ _ ot g =>
    let right := allPerms g
    ot.flatMap fun e => right.map fun r => comp r e.2

/-- `count` -/
def count : G → Nat
  | .triv _ => 1
  | .next _ _ ot g => ot.length * count g

def generatorsImpl : G → List Perm
  | .triv _ => []
  | .next _ _ ot g => (ot.map (·.2)).foldl (fun acc p => insertNew p acc) (generatorsImpl g)

/-- `generators` (without the identity) -/
def generators (g : G) : List Perm := (generatorsImpl g).filter (· != g.identity)

/-- `orbit` -/
def orbit (g : G) (s : Nat) : List Nat := (buildOt0 s g.identity (generators g)).map (·.1)

/-- `add_set` -/
def addSet (g : G) (perms : List Perm) : G × Bool :=
  let fresh := perms.foldl (fun acc p =>
    if contains g p == some true then acc else insertNew p acc) []
  if fresh.isEmpty then (g, false)
  else (mk g.identity (fresh.foldl (fun acc p => insertNew p acc) (generators g)), true)

def isTrivial : G → Bool
  | .triv _ => true
  | _ => false

/-- `shrink_slots` (`/repo/src/egraph/rebuild.rs`): the part of a class symmetry that acts on the retained slots -/
def restrict (cap : List Nat) (p : Perm) : Perm := p.filter fun e => cap.contains e.1

/-- the generators `shrink_slots` keeps: those that map retained slots to retained slots and dropped ones to dropped ones -/
def preservesCap (cap : List Nat) (p : Perm) : Bool := p.all fun e => cap.contains e.1 == cap.contains e.2

end Grp
end SV
