import SlotVerif.Model.SnapInv
/-
The *writes* to the slotted union-find (`/repo/src/egraph/find.rs: unionfind_set`), modelled literally, and the three
shapes of write the e-graph performs, with the guards under which they are made:
  alloc  (`add.rs: alloc_eclass`)                  — a new leader entry is pushed at the end;
  merge  (`union.rs: move_to`)                     — a leader's entry is overwritten by an invocation of another leader;
  shrink (`rebuild.rs: record_redundancy_witness`) — a leader's entry is overwritten by a smaller partial identity.
`Proofs/UfWrite.lean` proves, for every table and every sequence of valid writes: the table invariants are kept, every
id that resolved before resolves afterwards (to the same leader, or to the leader its old leader was merged into), ids
with one leader keep one leader, and the arguments a resolution retains only shrink.
Import-free apart from the snapshot model.
-/
namespace SV
namespace Snap
open SlotMap

/-- `unionfind_set` -/
def ufSet (uf : List AppId) (i : Nat) (e : AppId) : List AppId :=
  if uf.length = i then uf ++ [e] else uf.set i e

def isPartialId (m : SlotMap) : Bool := m.all fun p => p.1 == p.2

/-- the guards of the three kinds of write -/
def validWrite (uf : List AppId) (i : Nat) (e : AppId) : Bool :=
  wfb e.m &&
  if uf.length = i then e.id == i && isPartialId e.m
  else match uf[i]? with
    | none => false
    | some old =>
      old.id == i &&
      if e.id == i then isPartialId e.m && subset (keys e.m) (keys old.m)
      else match uf[e.id]? with
        | some tgt => tgt.id == e.id && subset (valuesVec e.m) (keys old.m) &&
            -- the map of a merge is a bijection from the target's slots onto the absorbed leader's slots (the hypothesis
            -- `IsBij` of `eq_survives_merge`)
            subset (keys old.m) (valuesVec e.m) && sameSet (keys e.m) (keys tgt.m) && isBijection e.m
        | none => false

/-- a sequence of writes, each checked against its guard -/
def applyWrites (uf : List AppId) : List (Nat × AppId) → Option (List AppId)
  | [] => some uf
  | w :: ws => if validWrite uf w.1 w.2 then applyWrites (ufSet uf w.1 w.2) ws else none

/-- which kind of write (for the evidence histogram) -/
def writeKind (uf : List AppId) (i : Nat) (e : AppId) : String :=
  if uf.length = i then "alloc" else if e.id == i then "shrink" else "merge"

end Snap
end SV
