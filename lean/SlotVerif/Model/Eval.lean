import SlotVerif.Model.Term
/-
V3 — the C03 model algebra: arithmetic over 𝔽₇ with a summation binder (range {0,1,2}) and a let binder,
for the main harness language (variant indices as in `/verif/harness/src/langs.rs: Main`).
Terms are locally nameless; `benv` is the stack of values of the enclosing binders.
Import-free apart from the term model.
-/
namespace SV
namespace Eval

abbrev F := Fin 7

/-- the summation binder ranges over the three values 0, 1, 2 (not over the whole field: sums over all of
𝔽₇ annihilate every polynomial of degree < 6 and would hide most wrong rewrites) -/
def sum7 (f : F → F) : F := f 0 + f 1 + f 2

def litVal (s : String) : F :=
  match s.toNat? with
  | some n => Fin.ofNat 7 n
  | none => match s with
    | "a" => 2 | "b" => 3 | "c" => 5 | _ => 1

def slotVal (benv : List F) (env : Nat → F) (c : Nat) : F :=
  if Term.isBvar c then benv.getD (c / 4) 0 else env c

/-- the slot values of a node's fields, in order (binder names excluded), each at its local depth -/
def nodeVals (benv : List F) (env : Nat → F) (n : Node) : List F :=
  (Term.nodeSlots n).map fun p => slotVal benv env p.2

def nodeLit (n : Node) : String :=
  match n.fields with
  | [.lit v] => v
  | _ => ""

mutual
/-- value of a term; operators by variant index of the main language -/
def eval (benv : List F) (env : Nat → F) : Term → F
  | .mk n cs =>
    match n.v, cs with
    | 2, _ => (nodeVals benv env n).getD 0 0                              -- var $x
    | 4, [a, b] => eval benv env a + eval benv env b                      -- add
    | 5, [a, b] => eval benv env a * eval benv env b                      -- mul
    | 6, [b] => sum7 fun v => eval (v :: benv) env b                      -- sum $x body
    | 3, [b, e] => eval (eval benv env e :: benv) env b                   -- let $x b e  =  b[x := e]
    | 15, _ => litVal (nodeLit n)                                         -- number
    | 16, _ => litVal (nodeLit n)                                         -- symbol
    | 7, _ => let v := nodeVals benv env n; v.getD 0 0 + 2 * v.getD 1 0 + 1            -- f2
    | 8, _ => let v := nodeVals benv env n; v.getD 0 0 * v.getD 1 0 + 3 * v.getD 2 0   -- f3
    | 9, _ => let v := nodeVals benv env n; v.getD 0 0 + 2 * v.getD 1 0 + 3 * v.getD 2 0 + 4 * v.getD 3 0  -- f4
    | 10, _ => let v := nodeVals benv env n; 3 * v.getD 0 0 + 2                        -- g1
    | 11, _ => let v := nodeVals benv env n; v.getD 0 0 * v.getD 0 0 + v.getD 1 0      -- g2
    | 12, _ => let v := nodeVals benv env n; v.getD 0 0 + v.getD 1 0 * v.getD 2 0 + 1  -- g3
    | 13, [a] => 3 * eval benv env a + 2                                  -- h
    | 14, [a, b] => eval benv env a * eval benv env b + eval benv env a + 2 * eval benv env b  -- k
    | _, _ => 0
end

end Eval
end SV
