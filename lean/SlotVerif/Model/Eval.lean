import SlotVerif.Model.Term
/-
V3 — the C03 model algebra: arithmetic over 𝔽₇ with a summation binder (range {0,1,2}) and a let binder,
for the main harness language (variant indices as in `/verif/harness/src/langs.rs: Main`).
Terms are locally nameless; `benv` is the stack of values of the enclosing binders.
Import-free apart from the term model.
-/
namespace SV
namespace Eval

abbrev F := Fin 7

/-- the summation binder ranges over the three values 0, 1, 2 (not over the whole field: sums over all of
𝔽₇ annihilate every polynomial of degree < 6 and would hide most wrong rewrites) -/
def sum7 (f : F → F) : F := f 0 + f 1 + f 2

def litVal (s : String) : F :=
  match s.toNat? with
  | some n => Fin.ofNat 7 n
  | none => match s with
    | "a" => 2 | "b" => 3 | "c" => 5 | _ => 1

/-- value of a slot occurrence at local depth `d` of its node (`d` = number of the node's own binders around it):
a bound index `j ≥ d` refers to the `(j-d)`-th enclosing binder of the node; names are looked up in `env` -/
def slotVal (d : Nat) (benv : List F) (env : Nat → F) (c : Nat) : F :=
  if Term.isBvar c then (if c / 4 < d then 0 else benv.getD (c / 4 - d) 0) else env c

/-- the slot values of a node's fields, in order (binder names excluded), each at its local depth -/
def nodeVals (benv : List F) (env : Nat → F) (n : Node) : List F :=
  (Term.nodeSlots n).map fun p => slotVal p.1 benv env p.2

def nodeLit (n : Node) : String :=
  match n.fields with
  | [.lit v] => v
  | _ => ""

/-- binder depths of the children as the evaluator uses them, per variant of the main language -/
def expDepths : Nat → List Nat
  | 6 => [1]            -- sum $x body
  | 3 => [1, 0]         -- let $x body value
  | 4 => [0, 0]         -- add
  | 5 => [0, 0]         -- mul
  | 14 => [0, 0]        -- k
  | 13 => [0]           -- h
  | _ => []

/-- the operator of a node, given the values of its slots and of its children
(`kid i bs` = value of child `i` with the additional binder values `bs`, innermost first) -/
def evalNode (n : Node) (vals : List F) (kid : Nat → List F → F) : F :=
  match n.v with
  | 2 => vals.getD 0 0                                                   -- var $x
  | 4 => kid 0 [] + kid 1 []                                             -- add
  | 5 => kid 0 [] * kid 1 []                                             -- mul
  | 6 => sum7 fun v => kid 0 [v]                                         -- sum $x body
  | 3 => kid 0 [kid 1 []]                                                -- let $x b e  =  b[x := e]
  | 15 => litVal (nodeLit n)                                             -- number
  | 16 => litVal (nodeLit n)                                             -- symbol
  | 7 => vals.getD 0 0 + 2 * vals.getD 1 0 + 1                           -- f2
  | 8 => vals.getD 0 0 * vals.getD 1 0 + 3 * vals.getD 2 0               -- f3
  | 9 => vals.getD 0 0 + 2 * vals.getD 1 0 + 3 * vals.getD 2 0 + 4 * vals.getD 3 0  -- f4
  | 10 => 3 * vals.getD 0 0 + 2                                          -- g1
  | 11 => vals.getD 0 0 * vals.getD 0 0 + vals.getD 1 0                  -- g2
  | 12 => vals.getD 0 0 + vals.getD 1 0 * vals.getD 2 0 + 1              -- g3
  | 13 => 3 * kid 0 [] + 2                                               -- h
  | 14 => kid 0 [] * kid 1 [] + kid 0 [] + 2 * kid 1 []                  -- k
  | _ => 0

mutual
/-- value of a term as a function of the binder stack and the environment; a node whose binder structure is
not the one of its operator (never produced by the harness languages) has the value 0 -/
def evalT : Term → List F → (Nat → F) → F
  | .mk n cs => fun benv env =>
    if Term.childDepths n = expDepths n.v then
      evalNode n (nodeVals benv env n) fun i bs => ((evalTL cs).getD i (fun _ _ => 0)) (bs ++ benv) env
    else 0
def evalTL : List Term → List (List F → (Nat → F) → F)
  | [] => []
  | t :: ts => evalT t :: evalTL ts
end

/-- value of a term (`benv`: values of the enclosing binders, innermost first) -/
def eval (benv : List F) (env : Nat → F) (t : Term) : F := evalT t benv env

end Eval
end SV
