import SlotVerif.Model.Term
/-
V3 — the C03 model algebra: arithmetic over 𝔽₇ with a summation binder (range {0,1,2}) and a let binder,
for the main harness language (variant indices as in `/verif/harness/src/langs.rs: Main`).
Terms are locally nameless; `benv` is the stack of values of the enclosing binders.
Import-free apart from the term model.
-/
namespace SV
namespace Eval

abbrev F := Fin 7

/-- the summation binder ranges over the three values 0, 1, 2 (not over the whole field: sums over all of
𝔽₇ annihilate every polynomial of degree < 6 and would hide most wrong rewrites) -/
def sum7 (f : F → F) : F := f 0 + f 1 + f 2

def litVal (s : String) : F :=
  match s.toNat? with
  | some n => Fin.ofNat 7 n
  | none => match s with
    | "a" => 2 | "b" => 3 | "c" => 5 | _ => 1

/-- value of a slot occurrence at local depth `d` of its node (`d` = number of the node's own binders around it):
a bound index `j ≥ d` refers to the `(j-d)`-th enclosing binder of the node; names are looked up in `env` -/
def slotVal (d : Nat) (benv : List F) (env : Nat → F) (c : Nat) : F :=
  if Term.isBvar c then (if c / 4 < d then 0 else benv.getD (c / 4 - d) 0) else env c

/-- the slot values of a node's fields, in order (binder names excluded), each at its local depth -/
def nodeVals (benv : List F) (env : Nat → F) (n : Node) : List F :=
  (Term.nodeSlots n).map fun p => slotVal p.1 benv env p.2

def nodeLit (n : Node) : String :=
  match n.fields with
  | [.lit v] => v
  | _ => ""

/-- binder depths of the children as the evaluator uses them, per variant of the main language -/
def expDepths : Nat → List Nat
  | 6 => [1]            -- sum $x body
  | 3 => [1, 0]         -- let $x body value
  | 4 => [0, 0]         -- add
  | 5 => [0, 0]         -- mul
  | 14 => [0, 0]        -- k
  | 13 => [0]           -- h
  | _ => []

/-- the operator of a node, given the values of its slots and of its children
(`kid i bs` = value of child `i` with the additional binder values `bs`, innermost first) -/
def evalNode (n : Node) (vals : List F) (kid : Nat → List F → F) : F :=
  match n.v with
  | 2 => vals.getD 0 0                                                   -- var $x
  | 4 => kid 0 [] + kid 1 []                                             -- add
  | 5 => kid 0 [] * kid 1 []                                             -- mul
  | 6 => sum7 fun v => kid 0 [v]                                         -- sum $x body
  | 3 => kid 0 [kid 1 []]                                                -- let $x b e  =  b[x := e]
  | 15 => litVal (nodeLit n)                                             -- number
  | 16 => litVal (nodeLit n)                                             -- symbol
  | 7 => vals.getD 0 0 + 2 * vals.getD 1 0 + 1                           -- f2
  | 8 => vals.getD 0 0 * vals.getD 1 0 + 3 * vals.getD 2 0               -- f3
  | 9 => vals.getD 0 0 + 2 * vals.getD 1 0 + 3 * vals.getD 2 0 + 4 * vals.getD 3 0  -- f4
  | 10 => 3 * vals.getD 0 0 + 2                                          -- g1
  | 11 => vals.getD 0 0 * vals.getD 0 0 + vals.getD 1 0                  -- g2
  | 12 => vals.getD 0 0 + vals.getD 1 0 * vals.getD 2 0 + 1              -- g3
  | 13 => 3 * kid 0 [] + 2                                               -- h
  | 14 => kid 0 [] * kid 1 [] + kid 0 [] + 2 * kid 1 []                  -- k
  | _ => 0

mutual
/-- value of a term as a function of the binder stack and the environment; a node whose binder structure is
not the one of its operator (never produced by the harness languages) has the value 0 -/
def evalT : Term → List F → (Nat → F) → F
  | .mk n cs => fun benv env =>
    if Term.childDepths n = expDepths n.v then
      evalNode n (nodeVals benv env n) fun i bs => ((evalTL cs).getD i (fun _ _ => 0)) (bs ++ benv) env
    else 0
def evalTL : List Term → List (List F → (Nat → F) → F)
  | [] => []
  | t :: ts => evalT t :: evalTL ts
end

/-- value of a term (`benv`: values of the enclosing binders, innermost first) -/
def eval (benv : List F) (env : Nat → F) (t : Term) : F := evalT t benv env


/-! ### evaluation of *named* terms (what the user writes), by names — no de Bruijn indices

`Term.close` turns a named term into its locally nameless form; `Proofs/EvalNamed.lean` proves that the
two evaluators agree along it, so the LN conversion is not trusted for the C03 statements. -/

/-- the environment in which the names `names` (innermost binder first) have the values `vals` -/
def envWith (names : List Nat) (vals : List F) (env : Nat → F) : Nat → F :=
  fun x => match names.idxOf? x with
    | some k => vals.getD k 0
    | none => env x

/-- slot occurrences of a field with the names of the node's own binders around each (innermost first) -/
def fieldSlotsN : Field → List Nat → List (List Nat × Nat)
  | .slot s, loc => [(loc, s)]
  | .app _, _ => []
  | .bind x f, loc => fieldSlotsN f (x :: loc)
  | .lit _, _ => []

/-- a slot the node binds itself has the value 0 (no operator of the harness languages reads one) -/
def nodeValsN (env : Nat → F) (n : Node) : List F :=
  (n.fields.flatMap (fieldSlotsN · [])).map fun p => if p.2 ∈ p.1 then 0 else env p.2

/-- for every child position: the names of the node's own binders around it, innermost first -/
def binderNames (n : Node) : List (List Nat) := n.fields.flatMap (Term.fieldBinders · [])

mutual
def evalN : Term → (Nat → F) → F
  | .mk n cs => fun env =>
    if Term.childDepths n = expDepths n.v then
      evalNode n (nodeValsN env n) fun i bs =>
        ((evalNL cs).getD i (fun _ => 0)) (envWith ((binderNames n).getD i []) bs env)
    else 0
def evalNL : List Term → List ((Nat → F) → F)
  | [] => []
  | t :: ts => evalN t :: evalNL ts
end

mutual
/-- every slot occurrence (not binder names) of a named term -/
def occN : Term → List Nat
  | .mk n cs => (n.fields.flatMap (fieldSlotsN · [])).map (·.2) ++ occNL cs
def occNL : List Term → List Nat
  | [] => []
  | t :: ts => occN t ++ occNL ts
end


mutual
/-- every binder name of a named term, at any depth -/
def bindersN : Term → List Nat
  | .mk n cs => (binderNames n).flatten ++ bindersNL cs
def bindersNL : List Term → List Nat
  | [] => []
  | t :: ts => bindersN t ++ bindersNL ts
end

/-- is this node `(var $c)`? -/
def isVarNode (n : Node) (c : Nat) : Bool :=
  match n.v, n.fields with
  | 2, [.slot s] => s == c
  | _, _ => false

mutual
/-- `b[(var $c) := e]` on named terms: every `(var $c)` subterm is replaced by `e` (no renaming: see `substOK`) -/
def substN (c : Nat) (e : Term) : Term → Term
  | .mk n cs => if isVarNode n c then e else .mk n (substNL c e cs)
def substNL (c : Nat) (e : Term) : List Term → List Term
  | [] => []
  | t :: ts => substN c e t :: substNL c e ts
end

mutual
/-- hygiene of the naive substitution: `c` is read only by `(var $c)` nodes, and no binder of the body rebinds `c`
or captures a slot of the inserted term (`avoid`) -/
def substOK (c : Nat) (avoid : List Nat) : Term → Bool
  | .mk n cs => isVarNode n c ||
      (((n.fields.flatMap (fieldSlotsN · [])).all fun p => p.2 != c) &&
       ((binderNames n).flatten.all fun y => y != c && !avoid.contains y) &&
       substOKL c avoid cs)
def substOKL (c : Nat) (avoid : List Nat) : List Term → Bool
  | [] => true
  | t :: ts => substOK c avoid t && substOKL c avoid ts
end

end Eval
end SV
