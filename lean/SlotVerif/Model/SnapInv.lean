import SlotVerif.Model.Snapshot
/-
V4 — the snapshot invariant checker: a decidable predicate on a dumped state.  What it accepts
satisfies the consistency facts of C08/C09 *for every invocation and every e-node of that state*
(theorems in `Props/C08.lean`), not only for the sampled queries.
-/
namespace SV
namespace Snap
open SlotMap

def subset (a b : List Nat) : Bool := a.all (b.contains ·)

/-- union-find entries: maps well formed; a leader's entry is a partial identity on its own slots
(so it is idempotent under composition); followers point to smaller... nothing assumed. -/
def ufOK (s : Snap) : Bool :=
  s.uf.all (fun e => wfb e.m) &&
  (List.range s.uf.length).all fun i =>
    match s.uf[i]? with
    | some e => if e.id == i then e.m.all (fun p => p.1 == p.2) else true
    | none => true

/-- a live class: its union-find entry is the identity on exactly the class slots -/
def leaderOK (s : Snap) (c : SClass) : Bool :=
  if isAlive s c.id then
    match s.uf[c.id]? with
    | some e => keys e.m == c.slots
    | none => false
  else c.nodes.isEmpty

/-- an e-node entry: bijection well formed and injective, defined on all public slots of the shape,
its image covers the class slots, the stored shape is a weak shape (fixpoint of `weakShape`) -/
def nodeOK (c : SClass) (e : Node × SlotMap) : Bool :=
  wfb e.2 && isBijection e.2 &&
  (keys e.2 == Node.slots e.1) &&
  subset c.slots (valuesVec e.2) &&
  ((Node.weakShape e.1).1 == e.1)

/-- no shape is stored twice (within a class or in two classes): the hashcons is a function -/
def shapesUnique (s : Snap) : Bool :=
  let all := s.classes.flatMap fun c => c.nodes.map (·.1)
  let rec nodup : List Node → Bool
    | [] => true
    | a :: t => !(decide (a ∈ t)) && nodup t
  nodup all

/-- group generators are permutations of the class slots -/
def gensOK (c : SClass) : Bool :=
  c.gens.all fun g => wfb g && isBijection g && keys g == c.slots && sameSet (valuesVec g) c.slots

/-- every child invocation stored in a shape is canonical: it points to a live class with exactly that class's slots as keys -/
def childrenOK (s : Snap) (c : SClass) : Bool :=
  c.nodes.all fun e => (Node.appOcc e.1).all fun a =>
    isAlive s a.id && (match cls s a.id with | some d => keys a.m == d.slots | none => false) && isBijection a.m

def sortedStrict : List Nat → Bool
  | [] => true
  | [_] => true
  | a :: b :: t => a < b && sortedStrict (b :: t)

def checkInv (s : Snap) : Bool :=
  ufOK s && shapesUnique s &&
  s.classes.all fun c =>
    sortedStrict c.slots && leaderOK s c && gensOK c && c.nodes.all (nodeOK c) &&
    (s.pending.isEmpty → childrenOK s c)

end Snap
end SV
