import SlotVerif.Model.Spec
import Std.Data.HashMap
/-
V1 — the saturation oracle: brute-force ground congruence closure over a finite pool of names.

`Orc.step` merges two elements of the universe only if `justified` holds, and `justified` is a
self-contained boolean check (an instance of an asserted equation under an injective renaming,
or congruence with children opened by fresh names and looked up *and compared* in the
universe).  Everything else — how the universe is generated, which candidate pairs are proposed,
the hash map used for look-ups — is heuristics and affects only how much is derived, never
soundness (`Proofs/Oracle.lean: run_sound`).
-/
namespace SV
open Term

namespace Term

mutual
def beq : Term → Term → Bool
  | .mk n cs, .mk m ds => decide (n = m) && beqL cs ds
def beqL : List Term → List Term → Bool
  | [], [] => true
  | a :: as, b :: bs => beq a b && beqL as bs
  | _, _ => false
end

def showSlotMapKey (m : SlotMap) : String := String.join (m.map fun p => s!"{p.1}>{p.2}|")

def showFieldKey : Field → String
  | .slot s => s!"${s}"
  | .app a => s!"@{a.id}[{showSlotMapKey a.m}]"
  | .bind s f => s!"b{s}." ++ showFieldKey f
  | .lit v => "'" ++ v

def showNodeKey (n : Node) : String := s!"{n.v}(" ++ ",".intercalate (n.fields.map showFieldKey) ++ ")"

mutual
/-- canonical text of a term (look-up key; never trusted: hits are compared with `beq`) -/
def key : Term → String
  | .mk n cs => showNodeKey n ++ "{" ++ keyL cs ++ "}"
def keyL : List Term → String
  | [] => ""
  | t :: ts => key t ++ " " ++ keyL ts
end

end Term

structure Orc where
  E : List (Term × Term)
  pool : List Nat
  univ : Array Term
  cls : Array Nat
  index : Std.HashMap String Nat

namespace Orc

def find (o : Orc) (i : Nat) : Nat := o.cls.getD i i

/-- position of a term in the universe, validated by comparison -/
def lookup (o : Orc) (t : Term) : Option Nat :=
  match o.index.get? (Term.key t) with
  | some i => if (match o.univ[i]? with | some u => Term.beq u t | none => false) then some i else none
  | none => none

/-- relabelling union -/
def merge (o : Orc) (i j : Nat) : Orc :=
  if o.find i = o.find j then o
  else { o with cls := o.cls.map fun c => if c = o.find j then o.find i else c }

/-! ### justification checks -/

/-- the renaming induced by matching name occurrence lists, if consistent and injective -/
def buildRen : List Nat → List Nat → List (Nat × Nat) → Option (List (Nat × Nat))
  | [], [], acc => some acc
  | a :: as, b :: bs, acc =>
    match acc.find? (·.1 == a) with
    | some p => if p.2 == b then buildRen as bs acc else none
    | none => if acc.any (·.2 == b) then none else buildRen as bs ((a, b) :: acc)
  | _, _, _ => none

def applyRen (σ : List (Nat × Nat)) (x : Nat) : Nat :=
  match σ.find? (·.1 == x) with
  | some p => p.2
  | none => x

/-- `(t,u)` is an instance of the equation `(l,r)` under a renaming injective on its names -/
def instOf (l r t u : Term) : Bool :=
  match buildRen (freeOcc l ++ freeOcc r) (freeOcc t ++ freeOcc u) [] with
  | some σ =>
    σ.all (fun p => !isBvar p.2) &&
    Term.beq (mapFree (applyRen σ) l) t && Term.beq (mapFree (applyRen σ) r) u
  | none => false

def axOK (o : Orc) (i j : Nat) : Bool :=
  match o.univ[i]?, o.univ[j]? with
  | some t, some u => o.E.any fun e => instOf e.1 e.2 t u || instOf e.2 e.1 t u
  | _, _ => false

def dedupL : List Nat → List Nat
  | [] => []
  | a :: t => if (dedupL t).contains a then dedupL t else a :: dedupL t

/-- the first `k` names of the pool that occur in neither term -/
def freshNames (pool : List Nat) (t u : Term) (k : Nat) : List Nat :=
  (dedupL (pool.filter fun a => !isBvar a && !(freeOcc t).contains a && !(freeOcc u).contains a)).take k

/-- children pairwise in one class after opening with `names` -/
def childrenOK (o : Orc) (names : List Nat) : List Nat → List Term → List Term → Bool
  | [], [], [] => true
  | d :: ds, a :: as, b :: bs =>
    decide (d ≤ names.length) &&
    (match o.lookup (openMany (names.take d) a), o.lookup (openMany (names.take d) b) with
     | some ia, some ib => o.find ia == o.find ib
     | _, _ => false) && childrenOK o names ds as bs
  | _, _, _ => false

def congrOK (o : Orc) (i j : Nat) : Bool :=
  match o.univ[i]?, o.univ[j]? with
  | some (.mk n cs), some (.mk m ds) =>
    decide (n = m) &&
    (let depths := childDepths n
     let k := depths.foldl max 0
     let names := freshNames o.pool (.mk n cs) (.mk m ds) k
     decide (names.length = k) && childrenOK o names depths cs ds)
  | _, _ => false

def justified (o : Orc) (i j : Nat) : Bool := axOK o i j || congrOK o i j

/-- the only state transition: merge a proposed pair if (and only if) it is justified -/
def step (o : Orc) (c : Nat × Nat) : Orc := if justified o c.1 c.2 then merge o c.1 c.2 else o

def run (o : Orc) (cands : List (Nat × Nat)) : Orc := cands.foldl step o

end Orc
end SV
