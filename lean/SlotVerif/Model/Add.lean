import SlotVerif.Model.SnapInv
/-
`EGraph::add` on a *miss* (`/repo/src/egraph/add.rs: add_internal` → `mk_singleton_class` → `alloc_eclass`,
`raw_add_to_class`, `rebuild` → `rebuild.rs: handle_pending`, `determine_self_symmetries`), default build, as a function
from the dumped state to the dumped state.  What the code does on that path, in its order:
  1. `shape(enode)` = `(sh, bij)`; the hashcons does not hold `sh` (otherwise `add` returns the hit and creates nothing);
  2. the canonical variant `sh·bij` is renamed to fresh slots `F` (`bijection_from_fresh_to`), a class `uf.len()` with
     slot set `F`, the trivial group and the leader entry `identity F` is allocated (`alloc_eclass`);
  3. the node is queued; `handle_pending` computes its shape in the new state, finds nothing in the hashcons, and stores
     `(sh2, bij2)` in the new class;
  4. `determine_self_symmetries`: every group-compatible variant of the canonical node that has the *same weak shape*
     yields the permutation `bij_variant⁻¹ ; bij_node` of `F`, which is added to the class group (`Group::add`);
  5. the result is `new[F ↦ old slots]`.
The fresh names are not a function of the state (a global counter): the model takes the returned invocation's map
`f2o : F → old slots` as a parameter and checks that it is a bijection onto the public slots of the canonical variant.
Analysis data and the syntactic e-node are carried as parameters (no influence on the rest).
Import-free apart from the snapshot model.
-/
namespace SV
namespace Snap
open SlotMap

/-- step 4: the permutations `determine_self_symmetries` hands to `Group::add`, in the order of the variants -/
def selfSyms (s : Snap) (n1 : Node) : List Perm :=
  let w1 := Node.weakShape n1
  (variants s n1).filterMap fun n2 =>
    let w2 := Node.weakShape n2
    if w2.1 == w1.1 then some (composePartial (inverse w2.2) w1.2) else none

/-- `Group::add` for each of them, starting from the trivial group on `F` -/
def addAll (g : Grp.G) (ps : List Perm) : Grp.G := ps.foldl (fun g p => (Grp.addSet g [p]).1) g

/-- every permutation handed to `Group::add` is a permutation of the class slots (the check `ProvenPerm::check` makes in the
`checks` build) -/
def permsOK (F : List Nat) (ps : List Perm) : Bool :=
  ps.all fun g => wfb g && isBijection g && keys g == F && sameSet (valuesVec g) F

/-- the state after `alloc_eclass` -/
def allocClass (s : Snap) (F : List Nat) (syn : Node) (data : String) : Snap :=
  { s with uf := s.uf ++ [{ id := s.uf.length, m := identity F }],
           classes := s.classes ++ [{ id := s.uf.length, slots := F, nodes := [], gens := [], syn := syn, data := data }] }

/-- the new class once `rebuild` has run -/
def setNew (s : Snap) (i : Nat) (node : Node × SlotMap) (gens : List Perm) : Snap :=
  { s with classes := s.classes.map fun c => if c.id == i then { c with nodes := [node], gens := gens } else c }

/-- `add` on a miss: the state afterwards and the returned invocation (`none`: not a miss, or outside the modelled path) -/
def addNew (s : Snap) (n : Node) (f2o : SlotMap) (syn : Node) (data : String) : Option (Snap × AppId) :=
  match shape s n with
  | none => none
  | some (sh, bij) =>
    match lookupShape s sh bij with
    | some _ => none
    | none =>
      let F := keys f2o
      if !(wfb f2o && isBijection f2o && sameSet (valuesVec f2o) (valuesVec bij)) then none else
      match Node.applySlotmap sh (composePartial bij (inverse f2o)) with
      | none => none
      | some enodeF =>
        let i := s.uf.length
        let s1 := allocClass s F syn data
        match shape s1 enodeF, preShape s1 enodeF with
        | some (sh2, bij2), some n1 =>
          -- the strong shape of the canonical variant, renamed, is the strong shape again (what `handle_pending` stores is
          -- what `add` looked up); a state in which it is not is outside the modelled path
          if !(sh2 == sh) then none else
          (match lookupShape s1 sh2 bij2 with
           | some _ => none
           | none =>
             -- a self-symmetry that is not a permutation of the class slots would be a redundancy witness
             -- (`determine_self_symmetries` then shrinks the class through `union`): outside the modelled path
             if !(permsOK F (selfSyms s1 n1)) then none else
             let g := addAll (Grp.mk (identity F) []) (selfSyms s1 n1)
             some (setNew s1 i (sh2, bij2) (Grp.generators g), { id := i, m := f2o }))
        | _, _ => none

/-- `EGraph::add` (`add_internal`): the hit returns the stored invocation and leaves the state alone, the miss allocates -/
def add (s : Snap) (n : Node) (f2o : SlotMap) (syn : Node) (data : String) : Option (Snap × AppId) :=
  match lookup s n with
  | some a => some (s, a)
  | none => addNew s n f2o syn data

end Snap
end SV
