/-
Model of `/repo/src/slot.rs`: the thread-local `SlotTable` and `Slot::{fresh,numeric,named}`,
`Display for Slot`.  A slot is its private `u32` code: `4n` numeric, `4n+1` fresh, `4i+2` the
i-th interned name.  u32 arithmetic is explicit; overflow is `Res.panic` (debug build, which
is what the repository's tests and the harness use).
Strings are `List Char`.  Import-free.
-/
namespace SV

inductive Res (α : Type) where
  | ok (a : α)
  | panic
deriving Repr, DecidableEq

namespace Slot

def U32 : Nat := 4294967296

def stripPlus : List Char → List Char
  | '+' :: t => t
  | cs => cs

def parseDigits (ds : List Char) : Option Nat :=
  if ds.isEmpty then none
  else if ds.all Char.isDigit then
    if Nat.ofDigitChars 10 ds 0 < U32 then some (Nat.ofDigitChars 10 ds 0) else none
  else none

/-- `str::parse::<u32>()`: optional leading `+`, at least one ASCII digit, only digits,
value must fit (Rust detects overflow digit by digit, which is the same as the final bound). -/
def parseU32 (cs : List Char) : Option Nat := parseDigits (stripPlus cs)

/-- decimal rendering used by `Display` (`u32::to_string`). -/
def showNat (n : Nat) : List Char := Nat.toDigits 10 n

/-- `s == x.to_string() && x < 2^30`: the text is the canonical decimal of a number whose
slot code does not overflow. -/
def canonNum (bound : Nat) (cs : List Char) : Option Nat :=
  match parseU32 cs with
  | some x => if x < bound ∧ cs = showNat x then some x else none
  | none => none

/-- numeric names: `x * 4` must fit in `u32`. -/
def numBound : Nat := 1073741824
/-- `f<n>` names: `x * 4 + 1 + 4` must fit in `u32`. -/
def freshBound : Nat := 1073741823

structure Tab where
  freshIdx : Nat := 1
  names : List (List Char) := []
deriving Repr

/-- `Slot::fresh`. -/
def fresh (t : Tab) : Res Nat × Tab :=
  if t.freshIdx + 4 < U32 then (.ok t.freshIdx, { t with freshIdx := t.freshIdx + 4 })
  else (.panic, t)

/-- `Slot::numeric(u)`: `u * 4` on `u32`. -/
def numeric (u : Nat) : Res Nat := if u * 4 < U32 then .ok (u * 4) else .panic

/-- which of the three name forms a text is -/
inductive NameKind where
  | num (x : Nat)
  | fr (x : Nat)
  | name
deriving Repr, DecidableEq

def classify (s : List Char) : NameKind :=
  match canonNum numBound s with
  | some x => .num x
  | none =>
    match s with
    | 'f' :: r =>
      match canonNum freshBound r with
      | some x => .fr x
      | none => .name
    | _ => .name

/-- look the name up in the table, interning it if new -/
def internName (t : Tab) (s : List Char) : Res Nat × Tab :=
  if s ∈ t.names then (.ok (4 * t.names.idxOf s + 2), t)
  else (.ok (4 * t.names.length + 2), { t with names := t.names ++ [s] })

/-- `Slot::named` (after fix F4: only canonical in-range decimals are numeric / fresh names). -/
def named (t : Tab) (s : List Char) : Res Nat × Tab :=
  match classify s with
  | .num x => (.ok (x * 4), t)
  | .fr x =>
    (.ok (x * 4 + 1), if t.freshIdx ≤ x * 4 + 1 then { t with freshIdx := x * 4 + 1 + 4 } else t)
  | .name => internName t s

/-- `Display for Slot` without the leading `$`; `none` = index out of bounds panic. -/
def display (t : Tab) (c : Nat) : Option (List Char) :=
  match c % 4 with
  | 0 => some (showNat (c / 4))
  | 1 => some ('f' :: showNat ((c - 1) / 4))
  | 2 => t.names[(c - 2) / 4]?
  | _ => none

end Slot
end SV
