/-
Model of the progress measure (`/repo/src/rewrite/mod.rs: ProgressMeasure`, `EGraph::progress`)
as a transition system over four kinds of event, tied to the code by the `verif::event` hooks:
  alloc  — `alloc_eclass`        (a class is allocated)
  merge  — `move_to`             (a live class is merged into another)
  shrink — `shrink_slots`        (a live class loses slots)
  addsym — `Group::add/add_set`  returned true (a live class gains symmetries)
Import-free.
-/
namespace SV

structure Measure where
  classes : Nat   -- number_of_classes      (documented: only grows)
  live : Nat      -- number_of_live_classes (then: only shrinks)
  slots : Nat     -- sum_of_slots           (then: only shrinks)
  syms : Nat      -- sum_of_symmetries      (then: only grows)
deriving DecidableEq, Repr

inductive Ev where
  | alloc | merge | shrink | addsym
deriving DecidableEq, Repr

namespace Measure

/-- the documented order: strictly "later" in the lexicographic sense -/
def lt (a b : Measure) : Prop :=
  a.classes < b.classes ∨
  (a.classes = b.classes ∧ (b.live < a.live ∨
    (a.live = b.live ∧ (b.slots < a.slots ∨
      (a.slots = b.slots ∧ a.syms < b.syms)))))

instance (a b : Measure) : Decidable (lt a b) := by unfold lt; infer_instance

def le (a b : Measure) : Prop := a = b ∨ lt a b

/-- what one public operation may do to the measure, given the kinds of event it logged:
the most significant kind present decides which component moves strictly. -/
def stepOK (evs : List Ev) (a b : Measure) : Bool :=
  if evs.contains .alloc then decide (a.classes < b.classes)
  else if evs.contains .merge then decide (a.classes = b.classes ∧ b.live < a.live)
  else if evs.contains .shrink then decide (a.classes = b.classes ∧ a.live = b.live ∧ b.slots < a.slots)
  else if evs.contains .addsym then
    decide (a.classes = b.classes ∧ a.live = b.live ∧ a.slots = b.slots ∧ a.syms < b.syms)
  else decide (a = b)

end Measure
end SV
