import SlotVerif.Model.Oracle
/-
V2 — the proof-DAG checker (C07).

An exported explanation is a list of nodes in dependency order.  Each node claims an equation
between *terms* and names its rule, its premises (earlier nodes) and, for a leaf, the
justification label of the asserted equation it instantiates.  A node is accepted when its claim
follows from the claims of its premises alone (for a leaf: from the one asserted equation carrying
its label) — decided by running the saturation oracle `Orc` with exactly those equations.  The
universe and candidate generators are heuristics passed in as parameters; soundness
(`Props/C07.lean`) holds for every choice of them.
-/
namespace SV.PC
open SV SV.Term

inductive Rule where
  | explicit | refl | symm | trans | congr
  deriving DecidableEq, Repr

structure PNode where
  rule : Rule
  premises : List Nat
  label : Option String          -- justification of an explicit step
  l : Term
  r : Term

/-- an asserted equation with the justification the user gave -/
structure Asserted where
  label : String
  l : Term
  r : Term

/-- heuristics: how to build the universe for one node and which pairs to propose in each round -/
structure Heur where
  uni : List (Term × Term) → Term → Term → List Nat × Array Term × Std.HashMap String Nat
  gen : Orc → List (Nat × Nat)
  fuel : Nat

/-- closure with an arbitrary candidate generator, at most `fuel` rounds -/
def closure (gen : Orc → List (Nat × Nat)) : Nat → Orc → Orc
  | 0, o => o
  | k + 1, o =>
    let c := gen o
    if c.isEmpty then o else
      let o' := o.run c
      if o'.cls == o.cls then o' else closure gen k o'

/-- does `l = r` follow from `E`?  (`true` is proved sound; `false` means "not derived") -/
def accepts (h : Heur) (E : List (Term × Term)) (l r : Term) : Bool :=
  let (pool, univ, index) := h.uni E l r
  let o := closure h.gen h.fuel { E := E, pool := pool, univ := univ, cls := Array.range univ.size, index := index }
  match o.lookup l, o.lookup r with
  | some i, some j => o.find i == o.find j
  | _, _ => false

def premiseEqs (nodes : List PNode) (n : PNode) : List (Term × Term) :=
  n.premises.filterMap fun i => (nodes[i]?).map fun p => (p.l, p.r)

def leafEqs (A : List Asserted) (n : PNode) : List (Term × Term) :=
  match n.label with
  | some lb => (A.filter fun a => a.label == lb).map fun a => (a.l, a.r)
  | none => []

/-- rule-specific premise counts (`congr` has one premise per child) -/
def arityOK (n : PNode) : Bool :=
  match n.rule with
  | .explicit => n.premises.isEmpty && n.label.isSome
  | .refl => n.premises.isEmpty && n.label.isNone
  | .symm => n.premises.length == 1 && n.label.isNone
  | .trans => n.premises.length == 2 && n.label.isNone
  | .congr => (match n.l with | .mk nd cs => n.premises.length == cs.length && n.premises.length == (childDepths nd).length) && n.label.isNone

/-- local acceptance of node `i` -/
def checkNode (h : Heur) (A : List Asserted) (nodes : List PNode) (i : Nat) (n : PNode) : Bool :=
  arityOK n && n.premises.all (fun j => decide (j < i)) &&
  (match n.rule with
   | .explicit => accepts h (leafEqs A n) n.l n.r
   | _ => accepts h (premiseEqs nodes n) n.l n.r)

def checkFrom (h : Heur) (A : List Asserted) (nodes : List PNode) : Nat → List PNode → Bool
  | _, [] => true
  | i, n :: rest => checkNode h A nodes i n && checkFrom h A nodes (i + 1) rest

/-- the whole DAG -/
def checkDag (h : Heur) (A : List Asserted) (nodes : List PNode) : Bool := checkFrom h A nodes 0 nodes

/-- index of the first node that is not accepted -/
def firstBad (h : Heur) (A : List Asserted) (nodes : List PNode) : Nat → List PNode → Option Nat
  | _, [] => none
  | i, n :: rest => if checkNode h A nodes i n then firstBad h A nodes (i + 1) rest else some i

end SV.PC
