import SlotVerif.Model.Oracle
/-
V2 — the proof-DAG checker (C07).

An exported explanation is a list of nodes in dependency order.  Each node claims an equation
between *terms* and names its rule, its premises (earlier nodes) and, for a leaf, the
justification label of the asserted equation it instantiates.  A node is accepted when its claim
follows from the claims of its premises alone (for a leaf: from the one asserted equation carrying
its label) — decided by running the saturation oracle `Orc` with exactly those equations.  The
universe and candidate generators are heuristics passed in as parameters; soundness
(`Props/C07.lean`) holds for every choice of them.
-/
namespace SV.PC
open SV SV.Term

inductive Rule where
  | explicit | refl | symm | trans | congr
  deriving DecidableEq, Repr

structure PNode where
  rule : Rule
  premises : List Nat
  label : Option String          -- justification of an explicit step
  l : Term
  r : Term

/-- an asserted equation with the justification the user gave -/
structure Asserted where
  label : String
  l : Term
  r : Term

/-- heuristics: how to build the universe for one node and which pairs to propose in each round -/
structure Heur where
  uni : List (Term × Term) → Term → Term → List Nat × Array Term × Std.HashMap String Nat
  gen : Orc → List (Nat × Nat)
  fuel : Nat

/-- closure with an arbitrary candidate generator, at most `fuel` rounds -/
def closure (gen : Orc → List (Nat × Nat)) : Nat → Orc → Orc
  | 0, o => o
  | k + 1, o =>
    let c := gen o
    if c.isEmpty then o else
      let o' := o.run c
      if o'.cls == o.cls then o' else closure gen k o'

/-- does `l = r` follow from `E`?  (`true` is proved sound; `false` means "not derived") -/
def accepts (h : Heur) (E : List (Term × Term)) (l r : Term) : Bool :=
  let (pool, univ, index) := h.uni E l r
  let o := closure h.gen h.fuel { E := E, pool := pool, univ := univ, cls := Array.range univ.size, index := index }
  match o.lookup l, o.lookup r with
  | some i, some j => o.find i == o.find j
  | _, _ => false

def premiseEqs (nodes : List PNode) (n : PNode) : List (Term × Term) :=
  n.premises.filterMap fun i => (nodes[i]?).map fun p => (p.l, p.r)

def leafEqs (A : List Asserted) (n : PNode) : List (Term × Term) :=
  match n.label with
  | some lb => (A.filter fun a => a.label == lb).map fun a => (a.l, a.r)
  | none => []

/-- rule-specific premise counts (`congr` has one premise per child) -/
def arityOK (n : PNode) : Bool :=
  match n.rule with
  | .explicit => n.premises.isEmpty && n.label.isSome
  | .refl => n.premises.isEmpty && n.label.isNone
  | .symm => n.premises.length == 1 && n.label.isNone
  | .trans => n.premises.length == 2 && n.label.isNone
  | .congr => (match n.l with | .mk nd cs => n.premises.length == cs.length && n.premises.length == (childDepths nd).length) && n.label.isNone

/-- local acceptance of node `i` -/
def checkNode (h : Heur) (A : List Asserted) (nodes : List PNode) (i : Nat) (n : PNode) : Bool :=
  arityOK n && n.premises.all (fun j => decide (j < i)) &&
  (match n.rule with
   | .explicit => accepts h (leafEqs A n) n.l n.r
   | _ => accepts h (premiseEqs nodes n) n.l n.r)

def checkFrom (h : Heur) (A : List Asserted) (nodes : List PNode) : Nat → List PNode → Bool
  | _, [] => true
  | i, n :: rest => checkNode h A nodes i n && checkFrom h A nodes (i + 1) rest

/-- the whole DAG -/
def checkDag (h : Heur) (A : List Asserted) (nodes : List PNode) : Bool := checkFrom h A nodes 0 nodes

/-- index of the first node that is not accepted -/
def firstBad (h : Heur) (A : List Asserted) (nodes : List PNode) : Nat → List PNode → Option Nat
  | _, [] => none
  | i, n :: rest => if checkNode h A nodes i n then firstBad h A nodes (i + 1) rest else some i


/-! ### rule applications -/

/-- a rewrite rule as the harness hands it to `Rewrite::new`: *named* terms whose pattern variables are leaves of the
reserved variant `pvarTag` carrying the variable name as a literal -/
structure RuleDef where
  name : String
  lhs : Term
  rhs : Term

def pvarTag : Nat := 999

def pvarName : Term → Option String
  | .mk n cs => if n.v = pvarTag then (match n.fields, cs with | [.lit a], [] => some a | _, _ => none) else none

mutual
/-- rename every slot occurrence of a named term, binder names included -/
def renameAllT (σ : Nat → Nat) : Term → Term
  | .mk n cs => .mk (Node.rename σ n) (renameAllTL σ cs)
def renameAllTL (σ : Nat → Nat) : List Term → List Term
  | [] => []
  | t :: ts => renameAllT σ t :: renameAllTL σ ts
end

mutual
/-- replace the pattern-variable leaves by the terms bound to them (a variable under a binder may mention the bound slot) -/
def instT (θ : List (String × Term)) : Term → Term
  | .mk n cs =>
    if n.v = pvarTag then
      (match n.fields, cs with
       | [.lit a], [] => (match θ.find? (·.1 == a) with | some p => p.2 | none => .mk n cs)
       | _, _ => .mk n (instTL θ cs))
    else .mk n (instTL θ cs)
def instTL (θ : List (String × Term)) : List Term → List Term
  | [] => []
  | t :: ts => instT θ t :: instTL θ ts
end

mutual
def allSlotsT : Term → List Nat
  | .mk n cs => Node.allOcc n ++ allSlotsTL cs
def allSlotsTL : List Term → List Nat
  | [] => []
  | t :: ts => allSlotsT t ++ allSlotsTL ts
end

/-- **what an application of a rule asserts**: both sides of the rule under one renaming of the pattern slots that is
injective on them, with the pattern variables replaced by terms; `none` if the renaming is not injective -/
def ruleInstance (rd : RuleDef) (θ : List (String × Term)) (σ : List (Nat × Nat)) : Option (Term × Term) :=
  let ps := Orc.dedupL (allSlotsT rd.lhs ++ allSlotsT rd.rhs)
  let img := ps.map (Orc.applyRen σ)
  if img.length == (Orc.dedupL img).length then
    some (close (instT θ (renameAllT (Orc.applyRen σ) rd.lhs)), close (instT θ (renameAllT (Orc.applyRen σ) rd.rhs)))
  else none


end SV.PC
