import SlotVerif.Model.Match
/-
Model of `/repo/src/rewrite/ematch.rs` (`ematch_all`, `ematch_impl`, `ematch_node`,
`try_insert_compatible_slotmap_bij`, `final_subst`) and of `EGraph::enodes_applied`
(`/repo/src/egraph/mod.rs`) on a dumped state.  Fresh slots are drawn from an explicit counter
(`4k+1`); hash-set iteration orders are modelled as list orders — the correspondence check compares
the *sets* of matches modulo the names of fresh slots and modulo the class symmetries.
Import-free apart from the snapshot model.
-/
namespace SV
namespace EMatch
open SlotMap

/-- the matcher state: bindings so far (e-graph slot names) and the map e-graph slot ↦ pattern slot -/
structure MState where
  subst : List (String × AppId) := []
  smap : SlotMap := []
deriving Repr

def freshCode (k : Nat) : Nat := 4 * k + 1

/-- first-occurrence de-duplication -/
def dedupKeep : List Nat → List Nat
  | [] => []
  | a :: t => a :: (dedupKeep t).filter (· != a)

/-- the part of `enodes_applied` that gives every slot occurrence that is not a class slot (redundant slots of the
node, binder names and bound occurrences) a fresh name, the same occurrence name the same fresh name -/
def refreshNonClass (keep : List Nat) (n : Node) (k : Nat) : Node × Nat :=
  let occ := dedupKeep ((Node.allOcc n).filter fun x => !keep.contains x)
  let ren : Nat → Nat := fun x => match occ.idxOf? x with
    | some i => freshCode (k + i)
    | none => x
  (Node.rename ren n, k + occ.length)

/-- `enodes_applied(i)`: the e-nodes of the class of `i`, in the slots of the invocation -/
def enodesApplied (s : Snap) (i : AppId) (k : Nat) : List Node × Nat :=
  match s.cls i.id with
  | none => ([], k)
  | some c =>
    c.nodes.foldl (fun (acc : List Node × Nat) e =>
      match Node.applySlotmap e.1 e.2 with
      | none => acc
      | some x =>
        let (x1, k1) := refreshNonClass c.slots x acc.2
        let missing := (Node.slots x1).filter fun sl => (get i.m sl).isNone
        let m0 : SlotMap := (missing.zipIdx).foldl (fun m p => insert m p.1 (freshCode (k1 + p.2))) []
        let m := i.m.foldl (fun m p => insert m p.1 p.2) m0
        match Node.applySlotmap x1 m with
        | none => (acc.1, k1 + missing.length)
        | some x2 => (acc.1 ++ [x2], k1 + missing.length)) ([], k)

/-- `nullify_app_ids` -/
def nullify (n : Node) : Node := Node.mapApps (fun _ => { id := 0, m := [] }) n

/-- `get_group_compatible_weak_variants`: one variant per weak shape (the first in enumeration order) -/
def weakVariants (s : Snap) (n : Node) : List Node :=
  (Snap.variants s n).foldl (fun (acc : List Node × List Node) x =>
    let sh := (Node.weakShape x).1
    if acc.2.contains sh then acc else (acc.1 ++ [x], acc.2 ++ [sh])) ([], [])
  |>.1

/-- `try_insert_compatible_slotmap_bij` -/
def tryInsertBij (k v : Nat) (m : SlotMap) : Option SlotMap :=
  match get m k with
  | some old => if old != v then none else
      let m' := insert m k v
      if isBijection m' then some m' else none
  | none =>
      let m' := insert m k v
      if isBijection m' then some m' else none

def insertAll : List (Nat × Nat) → SlotMap → Option SlotMap
  | [], m => some m
  | (k, v) :: t, m => (tryInsertBij k v m).bind (insertAll t)

/-- the recursive call of the matcher on a sub-pattern (tied below by fuel) -/
abbrev Rec := MPat → MState → AppId → Nat → List MState × Nat

/-- every state so far is extended by every match of the child `a` against `p` -/
def ematchStates (rec : Rec) (p : MPat) (a : AppId) : List MState → Nat → List MState × Nat
  | [], k => ([], k)
  | st :: rest, k =>
    let (r1, k1) := rec p st a k
    let (r2, k2) := ematchStates rec p a rest k1
    (r1 ++ r2, k2)

/-- the fold over the children -/
def ematchKids (rec : Rec) : List MPat → List AppId → List MState → Nat → List MState × Nat
  | p :: ps, a :: as, acc, k =>
    let (next, k1) := ematchStates rec p a acc k
    ematchKids rec ps as next k1
  | _, _, acc, k => (acc, k)

/-- `ematch_node`: the loop over the group-compatible weak variants -/
def ematchVariants (rec : Rec) (n : Node) (cs : List MPat) (st : MState) : List Node → Nat → List MState × Nat
  | [], k => ([], k)
  | n2 :: rest, k =>
    let clear := nullify n2
    let (r1, k1) :=
      if (Node.weakShape n).1 != (Node.weakShape clear).1 then ([], k) else
      match insertAll ((Node.allOcc clear).zip (Node.allOcc n)) st.smap with
      | none => ([], k)
      | some m => ematchKids rec cs (Node.appOcc n2) [{ st with smap := m }] k
    let (r2, k2) := ematchVariants rec n cs st rest k1
    (r1 ++ r2, k2)

/-- the loop over the e-nodes of the class -/
def ematchNodes (s : Snap) (rec : Rec) (n : Node) (cs : List MPat) (st : MState) : List Node → Nat → List MState × Nat
  | [], k => ([], k)
  | nn :: rest, k =>
    if nn.v != n.v then ematchNodes s rec n cs st rest k else
    let (r1, k1) := ematchVariants rec n cs st (weakVariants s nn) k
    let (r2, k2) := ematchNodes s rec n cs st rest k1
    (r1 ++ r2, k2)

/-- `ematch_impl`; the fuel bounds the pattern depth (`MPat.depth p + 1` suffices) -/
def ematchImpl (s : Snap) : Nat → Rec
  | 0, _, _, _, k => ([], k)
  | _ + 1, .pvar v, st, i, k =>
    match (st.subst.find? (·.1 == v)).map (·.2) with
    | some j => if s.eq i j == some true then ([st], k) else ([], k)
    | none => ([{ st with subst := st.subst ++ [(v, i)] }], k)
  | fuel + 1, .node n cs, st, i, k =>
    let (nodes, k1) := enodesApplied s i k
    ematchNodes s (ematchImpl s fuel) n cs st nodes k1

mutual
def depth : MPat → Nat
  | .pvar _ => 1
  | .node _ cs => 1 + depthL cs
def depthL : List MPat → Nat
  | [] => 0
  | p :: ps => max (depth p) (depthL ps)
end

/-- `final_subst`: e-graph slot names ↦ pattern slot names, fresh names for the uncovered slots -/
def finalSubst (st : MState) (k : Nat) : List (String × AppId) × Nat :=
  let (m, k') := st.subst.foldl (fun (acc : SlotMap × Nat) b =>
    (Node.dedupSorted (valuesVec b.2.m)).foldl (fun (a : SlotMap × Nat) sl =>
      if (get a.1 sl).isSome then a else (insert a.1 sl (freshCode a.2), a.2 + 1)) acc) (st.smap, k)
  (st.subst.map fun b => (b.1, { b.2 with m := composePartial b.2.m m }), k')

/-- `ematch_all` -/
def ematchAll (s : Snap) (p : MPat) (k : Nat) : List (List (String × AppId)) × Nat :=
  s.ids.foldl (fun (acc : List (List (String × AppId)) × Nat) i =>
    let slots := match s.cls i with | some c => c.slots | none => []
    let (sts, k1) := ematchImpl s (depth p + 1) p {} { id := i, m := identity slots } acc.2
    sts.foldl (fun (a : List (List (String × AppId)) × Nat) st =>
      let (σ, k2) := finalSubst st a.2; (a.1 ++ [σ], k2)) (acc.1, k1)) ([], k)

end EMatch
end SV
