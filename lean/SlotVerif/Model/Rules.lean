import SlotVerif.Model.Eval
/-
The pool of rewrite rules used by the C03 / C04 / C15 runs, with their semantics in the model
algebra.  A pattern variable `?a` denotes an arbitrary function of the environment (the matched
class may mention any slot, including pattern-bound ones); `b[(var $x) := e]` means `b` in the
environment where `x` has the value of `e`.  The rule *texts* are printed by `Rule.show*` and
compared with the strings the harness hands to `Rewrite::new` on every run.
Import-free apart from the evaluator.
-/
namespace SV
namespace Rules
open Eval

/-- pattern syntax of the arithmetic fragment (slots by name) -/
inductive P where
  | pv (a : String)
  | var (x : String)
  | num (n : Nat)
  | add (a b : P)
  | mul (a b : P)
  | sum (x : String) (b : P)
  | let_ (x : String) (b e : P)
  | subst (b : P) (x : String) (e : P)      -- b[(var $x) := e]
  | h (a : P)
  | k (a b : P)
deriving Repr

abbrev Env := String → F
def Env.set (env : Env) (x : String) (v : F) : Env := fun y => if y = x then v else env y

/-- value of a pattern under an interpretation `ρ` of the pattern variables -/
def evalP (ρ : String → Env → F) : P → Env → F
  | .pv a, env => ρ a env
  | .var x, env => env x
  | .num n, _ => Fin.ofNat 7 n
  | .add a b, env => evalP ρ a env + evalP ρ b env
  | .mul a b, env => evalP ρ a env * evalP ρ b env
  | .sum x b, env => sum7 fun v => evalP ρ b (env.set x v)
  | .let_ x b e, env => evalP ρ b (env.set x (evalP ρ e env))
  | .subst b x e, env => evalP ρ b (env.set x (evalP ρ e env))
  | .h a, env => 3 * evalP ρ a env + 2
  | .k a b, env => evalP ρ a env * evalP ρ b env + evalP ρ a env + 2 * evalP ρ b env

/-- side condition `slot_free_in x a`: the denotation of `?a` does not depend on `x` -/
def FreeIn (ρ : String → Env → F) (x a : String) : Prop := ∀ env v, ρ a (env.set x v) = ρ a env

def P.show : P → String
  | .pv a => "?" ++ a
  | .var x => "(var $" ++ x ++ ")"
  | .num n => toString n
  | .add a b => "(add " ++ a.show ++ " " ++ b.show ++ ")"
  | .mul a b => "(mul " ++ a.show ++ " " ++ b.show ++ ")"
  | .sum x b => "(sum $" ++ x ++ " " ++ b.show ++ ")"
  | .let_ x b e => "(let $" ++ x ++ " " ++ b.show ++ " " ++ e.show ++ ")"
  | .subst b x e => b.show ++ "[(var $" ++ x ++ ") := " ++ e.show ++ "]"
  | .h a => "(h " ++ a.show ++ ")"
  | .k a b => "(k " ++ a.show ++ " " ++ b.show ++ ")"

structure Rule where
  name : String
  lhs : P
  rhs : P
  /-- explicit side conditions `(x, a)` (`slot_free_in x a`): slot `x` must not occur in what `?a` matched -/
  conds : List (String × String) := []
  /-- scoping facts `(x, a)` that hold by construction of the matcher and are *assumed* by the validity
  theorem: a slot bound inside the left pattern does not occur in a variable matched outside its
  scope, and a slot that only the right pattern binds occurs in no variable -/
  implicit : List (String × String) := []

def Rule.show (r : Rule) : String :=
  r.name ++ "|" ++ r.lhs.show ++ "|" ++ r.rhs.show ++ "|" ++
    ",".intercalate (r.conds.map fun c => c.1 ++ "/" ++ c.2)

open P in
def pool : List Rule := [
  ⟨"add-comm", add (pv "a") (pv "b"), add (pv "b") (pv "a"), [], []⟩,
  ⟨"add-assoc", add (add (pv "a") (pv "b")) (pv "c"), add (pv "a") (add (pv "b") (pv "c")), [], []⟩,
  ⟨"mul-comm", mul (pv "a") (pv "b"), mul (pv "b") (pv "a"), [], []⟩,
  ⟨"mul-assoc", mul (mul (pv "a") (pv "b")) (pv "c"), mul (pv "a") (mul (pv "b") (pv "c")), [], []⟩,
  ⟨"distrib", mul (pv "a") (add (pv "b") (pv "c")), add (mul (pv "a") (pv "b")) (mul (pv "a") (pv "c")), [], []⟩,
  ⟨"factor", add (mul (pv "a") (pv "b")) (mul (pv "a") (pv "c")), mul (pv "a") (add (pv "b") (pv "c")), [], []⟩,
  ⟨"add-zero", add (pv "a") (num 0), pv "a", [], []⟩,
  ⟨"mul-one", mul (pv "a") (num 1), pv "a", [], []⟩,
  ⟨"mul-zero", mul (pv "a") (num 0), num 0, [], []⟩,
  ⟨"sum-add", sum "x" (add (pv "a") (pv "b")), add (sum "x" (pv "a")) (sum "x" (pv "b")), [], []⟩,
  ⟨"sum-add-rev", add (sum "x" (pv "a")) (sum "y" (pv "b")),
      sum "z" (add (subst (pv "a") "x" (var "z")) (subst (pv "b") "y" (var "z"))), [], [("z", "a"), ("z", "b")]⟩,
  ⟨"sum-factor", sum "x" (mul (pv "c") (pv "a")), mul (pv "c") (sum "x" (pv "a")), [("x", "c")], []⟩,
  ⟨"sum-const", sum "x" (pv "c"), mul (num 3) (pv "c"), [("x", "c")], []⟩,
  ⟨"sum-swap", sum "x" (sum "y" (pv "a")), sum "y" (sum "x" (pv "a")), [], []⟩,
  ⟨"sum-unroll", sum "x" (pv "b"),
      add (add (subst (pv "b") "x" (num 0)) (subst (pv "b") "x" (num 1))) (subst (pv "b") "x" (num 2)), [], []⟩,
  ⟨"let-subst", let_ "x" (pv "b") (pv "e"), subst (pv "b") "x" (pv "e"), [], []⟩,
  ⟨"let-unused", let_ "x" (pv "b") (pv "e"), pv "b", [("x", "b")], []⟩,
  ⟨"let-var", let_ "x" (var "x") (pv "e"), pv "e", [], []⟩,
  ⟨"let-add", let_ "x" (add (pv "a") (pv "b")) (pv "e"), add (let_ "x" (pv "a") (pv "e")) (let_ "x" (pv "b") (pv "e")), [], []⟩,
  ⟨"let-mul", let_ "x" (mul (pv "a") (pv "b")) (pv "e"), mul (let_ "x" (pv "a") (pv "e")) (let_ "x" (pv "b") (pv "e")), [], []⟩,
  ⟨"let-sum", let_ "x" (sum "y" (pv "b")) (pv "e"), sum "y" (let_ "x" (pv "b") (pv "e")), [], [("y", "e")]⟩,
  ⟨"let-h", let_ "x" (h (pv "a")) (pv "e"), h (let_ "x" (pv "a") (pv "e")), [], []⟩,
  ⟨"k-def", k (pv "a") (pv "b"), add (add (mul (pv "a") (pv "b")) (pv "a")) (mul (num 2) (pv "b")), [], []⟩,
  ⟨"h-def", h (pv "a"), add (mul (num 3) (pv "a")) (num 2), [], []⟩,
  ⟨"sum2-factor", sum "o" (sum "i" (mul (pv "c") (pv "a"))), sum "i" (mul (pv "c") (sum "o" (pv "a"))), [("o", "c")], []⟩,
  ⟨"sum2-factor-b", sum "i" (sum "o" (mul (pv "c") (pv "a"))), sum "o" (mul (pv "c") (sum "i" (pv "a"))), [("i", "c")], []⟩,
  -- moving a factor under a binder: hygiene is the matcher's job (implicit), no explicit side condition;
  -- the twins spell the binder like the library prints its own fresh slots (`$f2`, `$f3`, `$f4`)
  ⟨"sum-infactor", mul (pv "c") (sum "x" (pv "a")), sum "x" (mul (pv "c") (pv "a")), [], [("x", "c")]⟩,
  ⟨"sum-infactor-f2", mul (pv "c") (sum "f2" (pv "a")), sum "f2" (mul (pv "c") (pv "a")), [], [("f2", "c")]⟩,
  ⟨"sum-infactor-f3", mul (pv "c") (sum "f3" (pv "a")), sum "f3" (mul (pv "c") (pv "a")), [], [("f3", "c")]⟩,
  ⟨"sum-infactor-f4", mul (pv "c") (sum "f4" (pv "a")), sum "f4" (mul (pv "c") (pv "a")), [], [("f4", "c")]⟩,
  -- free pattern slots: `$a` occurs twice on the left, `$b` once (the matcher has to bind them to distinct e-graph slots
  -- and the two occurrences of `$a` to the same one)
  ⟨"var-factor", add (mul (var "a") (var "b")) (var "a"), mul (var "a") (add (var "b") (num 1)), [], []⟩,
  -- the bound slot is mentioned explicitly below its binder, in the last e-node of the left pattern
  ⟨"sum-infactor-var", mul (pv "a") (sum "i" (mul (var "i") (pv "b"))), sum "i" (mul (var "i") (mul (pv "a") (pv "b"))), [],
      [("i", "a")]⟩,
  -- a binder that only the right side writes, around both variables: no e-node of the left pattern has a bound slot, so the
  -- first fresh slot drawn while matching names a slot of a variable (`a*b = let x = 1 in (x*a)*b`)
  ⟨"let-intro", mul (pv "a") (pv "b"), let_ "x" (mul (mul (var "x") (pv "a")) (pv "b")) (num 1), [], [("x", "a"), ("x", "b")]⟩,
  -- two nested bindings inlined at once: a right side with CHAINED substitutions (the outer one has to go through what the
  -- inner one brought in: `?f` may mention `$x`)
  ⟨"let-let-subst", let_ "x" (let_ "y" (pv "b") (pv "f")) (pv "e"), subst (subst (pv "b") "y" (pv "f")) "x" (pv "e"), [], []⟩,
  -- a rule with TWO side conditions (the crate's `and` combinator): a double summation of a term that mentions neither index
  ⟨"sum2-const", sum "x" (sum "y" (pv "c")), mul (num 3) (mul (num 3) (pv "c")), [("x", "c"), ("y", "c")], []⟩
]

open P in
/-- deliberately INVALID rules, used only to test that the check can fail -/
def badPool : List Rule := [
  ⟨"bad-sum-factor", sum "x" (mul (pv "c") (pv "a")), mul (pv "c") (sum "x" (pv "a")), [], []⟩,
  ⟨"bad-sum-const", sum "x" (pv "c"), pv "c", [("x", "c")], []⟩
]

/-- a rule is valid: both sides denote the same value under every interpretation that satisfies the side conditions -/
def Rule.Valid (r : Rule) : Prop :=
  ∀ (ρ : String → Env → F), (∀ c ∈ r.conds ++ r.implicit, FreeIn ρ c.1 c.2) →
    ∀ env, evalP ρ r.lhs env = evalP ρ r.rhs env

/-! ### instances of patterns as (named) terms of the main language -/

/-- the placeholder an `AppliedId` field of a term node carries (children are separate) -/
def ph : AppId := { id := 0, m := [] }

/-- the instance of a pattern under `σ` (pattern variables ↦ named terms), pattern slot `$x` ↦ the
slot `code x`; variant indices as in `/verif/harness/src/langs.rs: Main`.  The substitution form `b[(var $x) := e]` is the naive
replacement of `(var $x)` subterms, defined (`some`) only when it is hygienic (`Eval.substOK`). -/
def instN (code : String → Nat) (σ : String → Term) : P → Option Term
  | .pv a => some (σ a)
  | .var x => some (.mk { v := 2, fields := [.slot (code x)] } [])
  | .num n => some (.mk { v := 15, fields := [.lit (toString n)] } [])
  | .add a b => match instN code σ a, instN code σ b with
    | some ta, some tb => some (.mk { v := 4, fields := [.app ph, .app ph] } [ta, tb])
    | _, _ => none
  | .mul a b => match instN code σ a, instN code σ b with
    | some ta, some tb => some (.mk { v := 5, fields := [.app ph, .app ph] } [ta, tb])
    | _, _ => none
  | .sum x b => match instN code σ b with
    | some tb => some (.mk { v := 6, fields := [.bind (code x) (.app ph)] } [tb])
    | none => none
  | .let_ x b e => match instN code σ b, instN code σ e with
    | some tb, some te => some (.mk { v := 3, fields := [.bind (code x) (.app ph), .app ph] } [tb, te])
    | _, _ => none
  | .subst b x e => match instN code σ b, instN code σ e with
    | some tb, some te => if substOK (code x) (occN te) tb then some (substN (code x) te tb) else none
    | _, _ => none
  | .h a => match instN code σ a with
    | some ta => some (.mk { v := 13, fields := [.app ph] } [ta])
    | none => none
  | .k a b => match instN code σ a, instN code σ b with
    | some ta, some tb => some (.mk { v := 14, fields := [.app ph, .app ph] } [ta, tb])
    | _, _ => none

end Rules
end SV
