import SlotVerif.Model.Snapshot
/-
C06 spec/model: cheapest cost per class on a dumped state, for the three cost functions of the
C06 runs, and a *checker* for cost tables (`checkTable`) whose acceptance is proved to imply
optimality over all extraction trees (`Props/C06.lean`).  The table itself is computed by
relaxation rounds (untrusted search), then checked.
Import-free apart from the snapshot model.
-/
namespace SV
namespace Extract

/-- the three cost functions: `ast` = 1 + Σ, `depth` = 1 + Σ 2·child, `op` = weight(op) + Σ -/
inductive CF where
  | ast | depth | op
deriving DecidableEq, Repr

/-- operator weights of the `op` cost function (variant indices of the main language) -/
def opWeight (v : Nat) : Nat :=
  match v with
  | 15 => 10 | 16 => 3 | 2 => 2 | 13 => 1 | 14 => 4 | 4 => 2 | 5 => 5 | 0 => 3 | 6 => 3 | 3 => 6 | 1 => 6 | 10 => 1
  | _ => 7

/-- cost of a node given the costs of its children -/
def nodeCost (cf : CF) (v : Nat) (kids : List Nat) : Nat :=
  match cf with
  | .ast => 1 + kids.foldl (· + ·) 0
  | .depth => 1 + kids.foldl (fun a c => a + 2 * c) 0
  | .op => opWeight v + kids.foldl (· + ·) 0

abbrev Table := List (Nat × Nat)    -- class id ↦ best cost (absent = no finite term)

def Table.get (t : Table) (i : Nat) : Option Nat := (t.find? (·.1 == i)).map (·.2)

/-- children costs of a stored shape, if all are known -/
def kidCosts (t : Table) (sh : Node) : Option (List Nat) := (Node.appOcc sh).mapM fun a => t.get a.id

/-- one relaxation round -/
def relax (cf : CF) (s : Snap) (t : Table) : Table :=
  s.classes.filterMap fun c =>
    if !s.isAlive c.id then none else
    let cands := c.nodes.filterMap fun e => (kidCosts t e.1).map (nodeCost cf e.1.v)
    let cands := match t.get c.id with | some k => k :: cands | none => cands
    match cands with
    | [] => none
    | k :: ks => some (c.id, ks.foldl min k)

def iterate (cf : CF) (s : Snap) : Nat → Table → Table
  | 0, t => t
  | n + 1, t => let t' := relax cf s t; if t' == t then t else iterate cf s n t'

/-- the table after enough rounds (untrusted: `checkTable` decides whether it is right) -/
def minCost (cf : CF) (s : Snap) : Table := iterate cf s (4 * s.classes.length + 4) []

/-- **the checker**: (1) closed — every node of a live class whose children all have entries gives an
upper bound for the class's entry, which must exist; (2) attained — every entry belongs to a live class and is the cost of one of
the class's nodes over the children's entries. -/
def checkTable (cf : CF) (s : Snap) (t : Table) : Bool :=
  (s.classes.all fun c =>
    !s.isAlive c.id ||
    c.nodes.all fun e =>
      match kidCosts t e.1 with
      | none => true
      | some ks => match t.get c.id with
        | some k => k ≤ nodeCost cf e.1.v ks
        | none => false) &&
  (t.all fun p =>
    s.isAlive p.1 &&
    match s.cls p.1 with
    | none => false
    | some c => c.nodes.any fun e =>
      match kidCosts t e.1 with
      | some ks => nodeCost cf e.1.v ks == p.2
      | none => false)

end Extract
end SV
