import SlotVerif.Model.Snapshot
/-
C06 spec/model: cheapest cost per class on a dumped state, for the three cost functions of the
C06 runs, and a *checker* for cost tables (`checkTable`) whose acceptance is proved to imply
optimality over all extraction trees (`Props/C06.lean`).  The table itself is computed by
relaxation rounds (untrusted search), then checked.
Import-free apart from the snapshot model.
-/
namespace SV
namespace Extract

/-- the three cost functions: `ast` = 1 + Σ, `depth` = 1 + Σ 2·child, `op` = weight(op) + Σ -/
inductive CF where
  | ast | depth | op
deriving DecidableEq, Repr

/-- operator weights of the `op` cost function (variant indices of the main language) -/
def opWeight (v : Nat) : Nat :=
  match v with
  | 15 => 10 | 16 => 3 | 2 => 2 | 13 => 1 | 14 => 4 | 4 => 2 | 5 => 5 | 0 => 3 | 6 => 3 | 3 => 6 | 1 => 6 | 10 => 1
  | _ => 7

/-- cost of a node given the costs of its children -/
def nodeCost (cf : CF) (v : Nat) (kids : List Nat) : Nat :=
  match cf with
  | .ast => 1 + kids.foldl (· + ·) 0
  | .depth => 1 + kids.foldl (fun a c => a + 2 * c) 0
  | .op => opWeight v + kids.foldl (· + ·) 0

abbrev Table := List (Nat × Nat)    -- class id ↦ best cost (absent = no finite term)

def Table.get (t : Table) (i : Nat) : Option Nat := (t.find? (·.1 == i)).map (·.2)

/-- children costs of a stored shape, if all are known -/
def kidCosts (t : Table) (sh : Node) : Option (List Nat) := (Node.appOcc sh).mapM fun a => t.get a.id

/-- one relaxation round -/
def relax (cf : CF) (s : Snap) (t : Table) : Table :=
  s.classes.filterMap fun c =>
    if !s.isAlive c.id then none else
    let cands := c.nodes.filterMap fun e => (kidCosts t e.1).map (nodeCost cf e.1.v)
    let cands := match t.get c.id with | some k => k :: cands | none => cands
    match cands with
    | [] => none
    | k :: ks => some (c.id, ks.foldl min k)

def iterate (cf : CF) (s : Snap) : Nat → Table → Table
  | 0, t => t
  | n + 1, t => let t' := relax cf s t; if t' == t then t else iterate cf s n t'

/-- the table after enough rounds (untrusted: `checkTable` decides whether it is right) -/
def minCost (cf : CF) (s : Snap) : Table := iterate cf s (4 * s.classes.length + 4) []

/-- **the checker**: (1) closed — every node of a live class whose children all have entries gives an
upper bound for the class's entry, which must exist; (2) attained — every entry belongs to a live class and is the cost of one of
the class's nodes over the children's entries. -/
def checkTable (cf : CF) (s : Snap) (t : Table) : Bool :=
  (s.classes.all fun c =>
    !s.isAlive c.id ||
    c.nodes.all fun e =>
      match kidCosts t e.1 with
      | none => true
      | some ks => match t.get c.id with
        | some k => k ≤ nodeCost cf e.1.v ks
        | none => false) &&
  (t.all fun p =>
    s.isAlive p.1 &&
    match s.cls p.1 with
    | none => false
    | some c => c.nodes.any fun e =>
      match kidCosts t e.1 with
      | some ks => nodeCost cf e.1.v ks == p.2
      | none => false)

/-! ### `Extractor::new`: the cost-ordered work list (the heap loop of `src/extract/mod.rs`)

The binary heap is a list from which the cheapest entry is taken (`minEntry`; which of several cheapest
entries comes first does not influence the *cost* table — `dijkstra_accepted` holds for every tie-break).
An entry is (class, cost): the e-node the implementation stores next to the cost is dropped, it is only
needed by `extract`.  `usages(i)` is modelled as "every stored e-node that mentions `i`" (what the
`usages` index must contain on a consistent state). -/

abbrev QEntry := Nat × Nat

/-- the cheapest entry of a non-empty queue `e :: q` (first one among equals) -/
def minEntry : QEntry → List QEntry → QEntry
  | e, [] => e
  | e, f :: q => if f.2 < e.2 then minEntry f q else minEntry e q

/-- entries to push: for every live class without an entry, every e-node selected by `p` whose children all have entries,
with its cost over the children's entries -/
def cands (cf : CF) (s : Snap) (t : Table) (p : Node → Bool) : List QEntry :=
  s.classes.flatMap fun cl =>
    if !s.isAlive cl.id || (t.get cl.id).isSome then [] else
    cl.nodes.filterMap fun e =>
      if p e.1 then (kidCosts t e.1).map fun ks => (cl.id, nodeCost cf e.1.v ks) else none

/-- number of classes without an entry (termination measure of the loop) -/
def unmapped (s : Snap) (t : Table) : Nat := (s.classes.filter fun cl => (t.get cl.id).isNone).length

theorem minEntry_mem : ∀ (e : QEntry) (q : List QEntry), minEntry e q ∈ e :: q
  | e, [] => by simp [minEntry]
  | e, f :: q => by
    unfold minEntry
    split
    · have := minEntry_mem f q; simp only [List.mem_cons] at this ⊢; rcases this with h | h <;> simp [h]
    · have := minEntry_mem e q; simp only [List.mem_cons] at this ⊢; rcases this with h | h <;> simp [h]

theorem filter_length_lt {α : Type} (p p' : α → Bool) : ∀ (l : List α), (∀ x ∈ l, p' x = true → p x = true) →
    (∃ x ∈ l, p x = true ∧ p' x = false) → (l.filter p').length < (l.filter p).length
  | [], _, h => by obtain ⟨x, hx, _⟩ := h; simp at hx
  | a :: l, hsub, hex => by
    have hle : ∀ (l : List α), (∀ x ∈ l, p' x = true → p x = true) → (l.filter p').length ≤ (l.filter p).length := by
      intro l; induction l with
      | nil => intro _; simp
      | cons b l ih =>
        intro h
        have ih' := ih (fun x hx => h x (List.mem_cons_of_mem _ hx))
        have hb := h b (by simp)
        simp only [List.filter_cons]
        cases hp' : p' b <;> cases hp : p b <;> simp_all <;> omega
    obtain ⟨x, hx, hpx, hp'x⟩ := hex
    simp only [List.filter_cons]
    rcases List.mem_cons.mp hx with rfl | hxl
    · have := hle l (fun y hy => hsub y (List.mem_cons_of_mem _ hy))
      simp [hpx, hp'x]; omega
    · have ih := filter_length_lt p p' l (fun y hy => hsub y (List.mem_cons_of_mem _ hy)) ⟨x, hxl, hpx, hp'x⟩
      have ha := hsub a (by simp)
      cases hp' : p' a <;> cases hp : p a <;> simp_all <;> omega

theorem Table.get_cons (a : Nat × Nat) (t : Table) (i : Nat) :
    Table.get (a :: t) i = if a.1 == i then some a.2 else Table.get t i := by
  unfold Table.get
  simp only [List.find?_cons]
  split <;> simp_all

theorem unmapped_cons_lt (s : Snap) (t : Table) (c k : Nat) (cl : SClass) (hcl : s.cls c = some cl)
    (hnone : (t.get c).isSome = false) : unmapped s ((c, k) :: t) < unmapped s t := by
  unfold unmapped
  apply filter_length_lt
  · intro x _ h
    rw [Table.get_cons] at h
    split at h <;> simp_all
  · have hmem : cl ∈ s.classes := List.mem_of_find?_eq_some hcl
    have hid : cl.id = c := by have := List.find?_some hcl; simpa using this
    refine ⟨cl, hmem, ?_, ?_⟩
    · rw [hid]; cases h : t.get c <;> simp_all
    · rw [Table.get_cons, hid]; simp

/-- a selection outside the queue is replaced by the head (makes the loop total for every selection rule) -/
def guardPick (x e : QEntry) (q : List QEntry) : QEntry := if x ∈ e :: q then x else e

theorem guardPick_mem (x e : QEntry) (q : List QEntry) : guardPick x e q ∈ e :: q := by
  unfold guardPick; split <;> simp_all

/-- **the loop** of `Extractor::new`, for an arbitrary selection rule `pick` of the heap (`BinaryHeap` promises a greatest
element, not which one among equals): take the selected entry; skip it if its class has an entry already; otherwise record
it and push every parent node all of whose children now have entries (unless the parent's class has one).  (A selection
outside the queue is replaced by the head, so that the definition is total for every `pick`.) -/
def loopP (pick : QEntry → List QEntry → QEntry) (cf : CF) (s : Snap) (t : Table) (q : List QEntry) : Table :=
  match q with
  | [] => t
  | e :: q' =>
    let m := guardPick (pick e q') e q'
    let rest := (e :: q').erase m
    if hs : (t.get m.1).isSome then loopP pick cf s t rest
    else match hc : s.cls m.1 with
      | none => loopP pick cf s t rest
      | some _ =>
        let t' : Table := (m.1, m.2) :: t
        loopP pick cf s t' (rest ++ cands cf s t' (fun n => (Node.appOcc n).any (·.id == m.1)))
termination_by (unmapped s t, q.length)
decreasing_by
  · apply Prod.Lex.right
    rw [List.length_erase_of_mem (guardPick_mem (pick e q') e q')]; simp
  · apply Prod.Lex.right
    rw [List.length_erase_of_mem (guardPick_mem (pick e q') e q')]; simp
  · apply Prod.Lex.left
    exact unmapped_cons_lt s t _ _ _ hc (by simpa using hs)

/-- the loop with the first-among-the-cheapest rule (what the driver runs) -/
def loop (cf : CF) (s : Snap) (t : Table) (q : List QEntry) : Table := loopP minEntry cf s t q

/-- `Extractor::new`: leaves first, then the loop -/
def dijkstraP (pick : QEntry → List QEntry → QEntry) (cf : CF) (s : Snap) : Table :=
  loopP pick cf s [] (cands cf s [] (fun n => (Node.appOcc n).isEmpty))

def dijkstra (cf : CF) (s : Snap) : Table := dijkstraP minEntry cf s

/-! ### `Extractor::extract` at the level of costs: which e-node is taken for a class, and the tree that results

The implementation stores, next to a class's cost, the e-node that attained it, and `extract` rebuilds the term from these
e-nodes recursively.  Here the e-node is recovered from the table (the first e-node of the class whose cost over the
children's entries is the class's entry — any such node gives the same cost); slot names are not modelled. -/

/-- index of the e-node `extract` takes for class `c` -/
def bestIdx (cf : CF) (s : Snap) (t : Table) (c : Nat) : Option Nat :=
  match s.cls c, t.get c with
  | some cl, some k =>
    let i := cl.nodes.findIdx fun e => (kidCosts t e.1).map (nodeCost cf e.1.v) == some k
    if i < cl.nodes.length then some i else none
  | _, _ => none

inductive XT where
  | mk (cls : Nat) (node : Nat) (kids : List XT)

mutual
/-- `extract`, with fuel (the cost of the class suffices: children are strictly cheaper) -/
def extractTree (cf : CF) (s : Snap) (t : Table) : Nat → Nat → Option XT
  | 0, _ => none
  | fuel + 1, c =>
    match bestIdx cf s t c with
    | none => none
    | some i =>
      match (s.cls c).bind (fun cl => cl.nodes[i]?) with
      | none => none
      | some e => (extractKids cf s t fuel ((Node.appOcc e.1).map (·.id))).map (XT.mk c i)
def extractKids (cf : CF) (s : Snap) (t : Table) : Nat → List Nat → Option (List XT)
  | _, [] => some []
  | fuel, c :: cs =>
    match extractTree cf s t fuel c, extractKids cf s t fuel cs with
    | some T, some Ts => some (T :: Ts)
    | _, _ => none
end

end Extract
end SV
