import SlotVerif.Model.Node
/-
Terms (`RecExpr`) and their locally nameless form.

A *named* term is what the user writes: a node whose `AppliedId` fields are placeholders, plus
one child per placeholder.  Its *locally nameless* form (`Term.close`) replaces every bound
occurrence by a de Bruijn index, encoded as the slot code `4*i+3` (residue 3 is unused by real
slots), and every binder name by the dummy code `3`; alpha-equivalent named terms have equal
locally nameless forms, so the spec (`Model/Spec.lean`) needs no alpha rule.
Import-free apart from the node model.
-/
namespace SV

inductive Term where
  | mk (n : Node) (cs : List Term)
deriving Repr, BEq

instance : Inhabited Term := ⟨.mk { v := 0, fields := [] } []⟩

namespace Term

def bvar (i : Nat) : Nat := 4 * i + 3
def isBvar (c : Nat) : Bool := c % 4 == 3

/-! ### per-field helpers: `d` = number of binders of *this node* enclosing the position -/

/-- number of placeholders (`AppliedId`s) in a field, each with its local binder depth -/
def fieldAppDepths : Field → Nat → List Nat
  | .slot _, _ => []
  | .app _, d => [d]
  | .bind _ f, d => fieldAppDepths f (d + 1)
  | .lit _, _ => []

/-- local binder depth of every child position of a node -/
def childDepths (n : Node) : List Nat := n.fields.flatMap (fieldAppDepths · 0)

/-- map the slot occurrences of a field; `g d c` sees the local depth `d` -/
def mapFieldSlots (g : Nat → Nat → Nat) : Field → Nat → Field
  | .slot s, d => .slot (g d s)
  | .app a, _ => .app a
  | .bind s f, d => .bind s (mapFieldSlots g f (d + 1))
  | .lit v, _ => .lit v

def mapNodeSlots (g : Nat → Nat → Nat) (n : Node) : Node :=
  { n with fields := n.fields.map (mapFieldSlots g · 0) }

/-- slot occurrences of a field (not binder names), with local depth -/
def fieldSlots : Field → Nat → List (Nat × Nat)
  | .slot s, d => [(d, s)]
  | .app _, _ => []
  | .bind _ f, d => fieldSlots f (d + 1)
  | .lit _, _ => []

def nodeSlots (n : Node) : List (Nat × Nat) := n.fields.flatMap (fieldSlots · 0)

/-! ### locally nameless operations (on terms whose slot codes are names or `bvar` indices) -/

mutual
/-- free names, in order of occurrence (with repetitions) -/
def freeOcc : Term → List Nat
  | .mk n cs => ((nodeSlots n).map (·.2)).filter (fun c => !isBvar c) ++ freeOccL cs
def freeOccL : List Term → List Nat
  | [] => []
  | t :: ts => freeOcc t ++ freeOccL ts
end

def fv (t : Term) : List Nat := Node.dedupSorted (freeOcc t)

mutual
/-- rename free names -/
def mapFree (f : Nat → Nat) : Term → Term
  | .mk n cs => .mk (mapNodeSlots (fun _ c => if isBvar c then c else f c) n) (mapFreeL f cs)
def mapFreeL (f : Nat → Nat) : List Term → List Term
  | [] => []
  | t :: ts => mapFree f t :: mapFreeL f ts
end

mutual
/-- `openAt k a t`: replace the bound index that refers to the `k`-th enclosing binder *outside* `t` by the name `a` -/
def openAt (k a : Nat) : Term → Term
  | .mk n cs =>
    .mk (mapNodeSlots (fun d c => if c == bvar (k + d) then a else c) n) (openAtL k a (childDepths n) cs)
def openAtL (k a : Nat) : List Nat → List Term → List Term
  | d :: ds, t :: ts => openAt (k + d) a t :: openAtL k a ds ts
  | _, [] => []
  | [], t :: ts => openAt k a t :: openAtL k a [] ts
end

/-- open a child that sits under `names.length` binders of its parent node; `names[0]` is for the innermost -/
def openMany (names : List Nat) (t : Term) : Term :=
  (List.range names.length).foldl (fun t i => openAt i (names.getD i 0) t) t

/-- for every placeholder of a field: the binder names of this node enclosing it, innermost first -/
def fieldBinders : Field → List Nat → List (List Nat)
  | .slot _, _ => []
  | .app _, acc => [acc]
  | .bind s f, acc => fieldBinders f (s :: acc)
  | .lit _, _ => []

def closeField (env : List Nat) : Field → List Nat → Field
  | .slot s, loc => .slot (match (loc ++ env).idxOf? s with | some i => bvar i | none => s)
  | .app a, _ => .app a
  | .bind s f, loc => .bind 3 (closeField env f (s :: loc))
  | .lit v, _ => .lit v

def closeNode (env : List Nat) (n : Node) : Node :=
  { n with fields := n.fields.map (closeField env · []) }

mutual
/-- named → locally nameless; `env[i]` = name bound by the `i`-th enclosing binder (innermost first) -/
def closeAt (env : List Nat) : Term → Term
  | .mk n cs => .mk (closeNode env n) (closeAtL env (n.fields.flatMap (fieldBinders · [])) cs)
def closeAtL (env : List Nat) : List (List Nat) → List Term → List Term
  | bs :: bss, t :: ts => closeAt (bs ++ env) t :: closeAtL env bss ts
  | _, [] => []
  | [], t :: ts => closeAt env t :: closeAtL env [] ts
end

/-- the locally nameless form of a closed named term -/
def close (t : Term) : Term := closeAt [] t

mutual
def size : Term → Nat
  | .mk _ cs => 1 + sizeL cs
def sizeL : List Term → Nat
  | [] => 0
  | t :: ts => size t + sizeL ts
end

end Term
end SV
