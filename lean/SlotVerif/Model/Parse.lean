import SlotVerif.Model.Node
import SlotVerif.Model.Slot
/-
Model of `/repo/src/parse.rs` (tokenizer, pattern parser, printers) over `List Char`,
generic over the language signature.  `Outcome.err` carries the `ParseError` variant name.
Import-free apart from the node and slot models.
-/
namespace SV

inductive Pat where
  | enode (n : Node) (cs : List Pat)
  | pvar (v : String)
  | subst (b x t : Pat)
deriving Repr

inductive Tok where
  | slot (c : Nat)
  | ident (s : String)
  | pvar (s : String)
  | colonEq
  | lparen
  | rparen
  | lbracket
  | rbracket
deriving Repr, DecidableEq

inductive PErr where
  | tokenState | parseState | remainingRest | fromSyntaxFailed | expectedColonEquals | expectedRBracket
deriving Repr, DecidableEq

def PErr.name : PErr → String
  | .tokenState => "TokenState" | .parseState => "ParseState" | .remainingRest => "RemainingRest"
  | .fromSyntaxFailed => "FromSyntaxFailed" | .expectedColonEquals => "ExpectedColonEquals"
  | .expectedRBracket => "ExpectedRBracket"

namespace Parse

/-- `char::is_whitespace` (Unicode `White_Space`). -/
def isWs (c : Char) : Bool :=
  let n := c.toNat
  (9 ≤ n && n ≤ 13) || n == 32 || n == 0x85 || n == 0xA0 || n == 0x1680 ||
  (0x2000 ≤ n && n ≤ 0x200A) || n == 0x2028 || n == 0x2029 || n == 0x202F || n == 0x205F || n == 0x3000

/-- `ident_char` -/
def identChar (c : Char) : Bool := !isWs c && c != '(' && c != ')' && c != '[' && c != ']'

/-- `crop_ident`: longest prefix of identifier characters; `none` = `TokenState` error (empty). -/
def cropIdent (s : List Char) : Option (List Char × List Char) :=
  let a := s.takeWhile identChar
  if a.isEmpty then none else some (a, s.dropWhile identChar)

/-- `tokenize`, threading the thread-local slot table. Fuel = input length + 1. -/
def tokenize : Nat → List Char → Slot.Tab → Except PErr (List Tok × Slot.Tab)
  | 0, _, t => .ok ([], t)
  | fuel + 1, s, t =>
    match s.dropWhile isWs with
    | [] => .ok ([], t)
    | '(' :: r => cont fuel r t .lparen
    | ')' :: r => cont fuel r t .rparen
    | '[' :: r => cont fuel r t .lbracket
    | ']' :: r => cont fuel r t .rbracket
    | ':' :: '=' :: r => cont fuel r t .colonEq
    | '?' :: r =>
      match cropIdent r with
      | none => .error .tokenState
      | some (a, r') => cont fuel r' t (.pvar (String.ofList a))
    | '$' :: r =>
      match cropIdent r with
      | none => .error .tokenState
      | some (a, r') =>
        match Slot.named t a with
        | (.ok c, t') => cont fuel r' t' (.slot c)
        | (.panic, _) => .error .tokenState   -- unreachable: `named` does not panic (C17 `named_fst_ok`)
    | c :: r =>
      match cropIdent (c :: r) with
      | none => .error .tokenState
      | some (a, r') => cont fuel r' t (.ident (String.ofList a))
where
  cont (fuel : Nat) (r : List Char) (t : Slot.Tab) (tok : Tok) : Except PErr (List Tok × Slot.Tab) :=
    match tokenize fuel r t with
    | .ok (l, t') => .ok (tok :: l, t')
    | .error e => .error e

/-- `NestedSyntaxElem` -/
inductive NElem where
  | pat (p : Pat)
  | slot (c : Nat)
  | str (s : String)

def mockElems (l : List NElem) : List SynElem :=
  l.map fun
    | .pat _ => .app { id := 0, m := [] }
    | .slot c => .slot c
    | .str s => .str s

def patsOf : List NElem → List Pat
  | [] => []
  | .pat p :: t => p :: patsOf t
  | _ :: t => patsOf t

mutual
/-- `parse_pattern` -/
def parsePattern (sig : Sig) : Nat → List Tok → Except PErr (Pat × List Tok)
  | 0, _ => .error .parseState
  | fuel + 1, tok =>
    match parsePatternNosubst sig fuel tok with
    | .error e => .error e
    | .ok (p, tok) => substLoop sig fuel p tok

/-- the `while let Some(LBracket)` loop -/
def substLoop (sig : Sig) : Nat → Pat → List Tok → Except PErr (Pat × List Tok)
  | 0, _, _ => .error .parseState
  | fuel + 1, p, tok =>
    match tok with
    | .lbracket :: tok =>
      match parsePattern sig fuel tok with
      | .error e => .error e
      | .ok (l, tok) =>
        match tok with
        | .colonEq :: tok =>
          match parsePattern sig fuel tok with
          | .error e => .error e
          | .ok (r, tok) =>
            match tok with
            | .rbracket :: tok => substLoop sig fuel (.subst p l r) tok
            | _ => .error .expectedRBracket
        | _ => .error .expectedColonEquals
    | _ => .ok (p, tok)

/-- `parse_pattern_nosubst` (after fix F1: checked token access, arity check) -/
def parsePatternNosubst (sig : Sig) : Nat → List Tok → Except PErr (Pat × List Tok)
  | 0, _ => .error .parseState
  | fuel + 1, tok =>
    match tok with
    | .pvar p :: rest => .ok (.pvar p, rest)
    | .lparen :: .ident op :: rest =>
      match parseArgs sig fuel rest with
      | .error e => .error e
      | .ok (args, rest) =>
        let elems := NElem.str op :: args
        match fromSyntax sig (mockElems elems) with
        | none => .error .fromSyntaxFailed
        | some node =>
          let cs := patsOf elems
          if (Node.appOcc node).length ≠ cs.length then .error .fromSyntaxFailed
          else .ok (.enode node cs, rest)
    | .lparen :: _ => .error .parseState
    | .ident op :: rest =>
      match fromSyntax sig [.str op] with
      | none => .error .fromSyntaxFailed
      | some node =>
        if (Node.appOcc node).length ≠ 0 then .error .fromSyntaxFailed
        else .ok (.enode node [], rest)
    | _ => .error .parseState

/-- the argument loop up to the closing parenthesis (consumes it) -/
def parseArgs (sig : Sig) : Nat → List Tok → Except PErr (List NElem × List Tok)
  | 0, _ => .error .parseState
  | fuel + 1, tok =>
    match tok with
    | [] => .error .parseState
    | .rparen :: rest => .ok ([], rest)
    | .slot c :: rest =>
      match parseArgs sig fuel rest with
      | .error e => .error e
      | .ok (l, rest) => .ok (.slot c :: l, rest)
    | _ =>
      match parsePattern sig fuel tok with
      | .error e => .error e
      | .ok (p, rest) =>
        match parseArgs sig fuel rest with
        | .error e => .error e
        | .ok (l, rest) => .ok (.pat p :: l, rest)
end

/-- `Pattern::parse` -/
def parsePat (sig : Sig) (s : List Char) (t : Slot.Tab) : Except PErr (Pat × Slot.Tab) :=
  match tokenize (s.length + 1) s t with
  | .error e => .error e
  | .ok (toks, t') =>
    match parsePattern sig (4 * toks.length + 4) toks with
    | .error e => .error e
    | .ok (p, []) => .ok (p, t')
    | .ok (_, _ :: _) => .error .remainingRest

/-! ### printing -/

def showSlotTxt (t : Slot.Tab) (c : Nat) : String :=
  match Slot.display t c with
  | some txt => "$" ++ String.ofList txt
  | none => "$<panic>"

/-- fill the syntax elements of a node with the already printed children -/
def fillElems (t : Slot.Tab) : List SynElem → List String → List String
  | [], _ => []
  | .app _ :: rest, c :: cs => c :: fillElems t rest cs
  | .app _ :: rest, [] => "<panic>" :: fillElems t rest []
  | .slot c :: rest, cs => showSlotTxt t c :: fillElems t rest cs
  | .str s :: rest, cs => s :: fillElems t rest cs

mutual
/-- `Display for Pattern` -/
def printPat (sig : Sig) (t : Slot.Tab) : Pat → String
  | .pvar v => "?" ++ v
  | .subst b x y => printPat sig t b ++ "[" ++ printPat sig t x ++ " := " ++ printPat sig t y ++ "]"
  | .enode n cs =>
    let l := Node.toSyntax sig n
    let body := " ".intercalate (fillElems t l (printPats sig t cs))
    if l.length ≠ 1 then "(" ++ body ++ ")" else body

def printPats (sig : Sig) (t : Slot.Tab) : List Pat → List String
  | [] => []
  | p :: ps => printPat sig t p :: printPats sig t ps
end

/-! ### `RecExpr::parse` and `MultiPattern::parse` / `Display` (on top of `Pattern::parse`) -/

mutual
/-- `pattern_to_re` succeeds: no pattern variable, no substitution -/
def isTerm : Pat → Bool
  | .enode _ cs => isTermL cs
  | _ => false
def isTermL : List Pat → Bool
  | [] => true
  | p :: ps => isTerm p && isTermL ps
end

/-- `RecExpr::parse` -/
def parseRe (sig : Sig) (s : List Char) (t : Slot.Tab) : Except PErr (Pat × Slot.Tab) :=
  match parsePat sig s t with
  | .ok (p, t') => if isTerm p then .ok (p, t') else .error .parseState
  | .error e => .error e

def splitEqEqGo : List Char → List Char → List (List Char)
  | [], cur => [cur.reverse]
  | [c], cur => [(c :: cur).reverse]
  | c :: d :: r, cur => if c = '=' ∧ d = '=' then cur.reverse :: splitEqEqGo r [] else splitEqEqGo (d :: r) (c :: cur)

/-- Rust `str::split("==")` on a char list -/
def splitEqEq (s : List Char) : List (List Char) := splitEqEqGo s []

def splitCommaGo : List Char → List Char → List (List Char)
  | [], cur => [cur.reverse]
  | c :: r, cur => if c = ',' then cur.reverse :: splitCommaGo r [] else splitCommaGo r (c :: cur)

/-- Rust `str::split(",")` -/
def splitComma (s : List Char) : List (List Char) := splitCommaGo s []

/-- `str::trim` -/
def trimWs (s : List Char) : List Char :=
  ((s.dropWhile isWs).reverse.dropWhile isWs).reverse

/-- one equation `?v == (op ?c1 .. ?ck)` of a multi-pattern -/
abbrev MEq := String × Node × List String

def allPvars : List Pat → Option (List String)
  | [] => some []
  | .pvar x :: r => (allPvars r).map (x :: ·)
  | _ :: _ => none

/-- the body of the loop of `MultiPattern::parse` for one trimmed, non-empty piece -/
def parseMEq (sig : Sig) (x : List Char) (t : Slot.Tab) : Except PErr (MEq × Slot.Tab) :=
  match splitEqEq x with
  | [l, r] =>
    match parsePat sig l t with
    | .error e => .error e
    | .ok (pl, t1) =>
      match parsePat sig r t1 with
      | .error e => .error e
      | .ok (pr, t2) =>
        match pl with
        | .pvar v =>
          match pr with
          | .enode n cs =>
            match allPvars cs with
            | some vars => .ok ((v, n, vars), t2)
            | none => .error .parseState
          | _ => .error .parseState
        | _ => .error .parseState
  | _ => .error .tokenState

def parseMEqs (sig : Sig) : List (List Char) → Slot.Tab → Except PErr (List MEq × Slot.Tab)
  | [], t => .ok ([], t)
  | x :: xs, t =>
    match parseMEq sig x t with
    | .error e => .error e
    | .ok (e, t1) =>
      match parseMEqs sig xs t1 with
      | .error e => .error e
      | .ok (es, t2) => .ok (e :: es, t2)

/-- `MultiPattern::parse` -/
def parseMulti (sig : Sig) (s : List Char) (t : Slot.Tab) : Except PErr (List MEq × Slot.Tab) :=
  parseMEqs sig (((splitComma s).map trimWs).filter (fun x => !x.isEmpty)) t

def printMEq (sig : Sig) (t : Slot.Tab) (e : MEq) : String :=
  "?" ++ e.1 ++ " == " ++ printPat sig t (.enode e.2.1 (e.2.2.map .pvar))

/-- `Display for MultiPattern` -/
def printMulti (sig : Sig) (t : Slot.Tab) (mp : List MEq) : String :=
  ", ".intercalate (mp.map (printMEq sig t))

end Parse
end SV
