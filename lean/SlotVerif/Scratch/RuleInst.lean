import SlotVerif.Model.ProofCheck
import SlotVerif.Driver.EgDrv
/-! scratch: rule instances for C07 (moved into Model/ProofCheck.lean and Driver/ProofDrv.lean when done) -/
namespace SV.PC
open SV SV.Term

/-- a rewrite rule as the harness hands it to `Rewrite::new`: *named* terms whose pattern variables are leaves of the
reserved variant `pvarTag` carrying the variable name as a literal -/
structure RuleDef where
  name : String
  lhs : Term
  rhs : Term

def pvarTag : Nat := 999

def pvarName : Term → Option String
  | .mk n cs => if n.v = pvarTag then (match n.fields, cs with | [.lit a], [] => some a | _, _ => none) else none

mutual
/-- rename every slot occurrence of a named term, binder names included -/
def renameAllT (σ : Nat → Nat) : Term → Term
  | .mk n cs => .mk (Node.rename σ n) (renameAllTL σ cs)
def renameAllTL (σ : Nat → Nat) : List Term → List Term
  | [] => []
  | t :: ts => renameAllT σ t :: renameAllTL σ ts
end

mutual
/-- replace the pattern-variable leaves by the terms bound to them (a variable under a binder may mention the bound slot) -/
def instT (θ : List (String × Term)) : Term → Term
  | .mk n cs =>
    if n.v = pvarTag then
      (match n.fields, cs with
       | [.lit a], [] => (match θ.find? (·.1 == a) with | some p => p.2 | none => .mk n cs)
       | _, _ => .mk n (instTL θ cs))
    else .mk n (instTL θ cs)
def instTL (θ : List (String × Term)) : List Term → List Term
  | [] => []
  | t :: ts => instT θ t :: instTL θ ts
end

mutual
def allSlotsT : Term → List Nat
  | .mk n cs => Node.allOcc n ++ allSlotsTL cs
def allSlotsTL : List Term → List Nat
  | [] => []
  | t :: ts => allSlotsT t ++ allSlotsTL ts
end

/-- **what an application of a rule asserts**: both sides of the rule under one renaming of the pattern slots that is
injective on them, with the pattern variables replaced by terms; `none` if the renaming is not injective -/
def ruleInstance (rd : RuleDef) (θ : List (String × Term)) (σ : List (Nat × Nat)) : Option (Term × Term) :=
  let ps := Orc.dedupL (allSlotsT rd.lhs ++ allSlotsT rd.rhs)
  let img := ps.map (Orc.applyRen σ)
  if img.length == (Orc.dedupL img).length then
    some (close (instT θ (renameAllT (Orc.applyRen σ) rd.lhs)), close (instT θ (renameAllT (Orc.applyRen σ) rd.rhs)))
  else none

end SV.PC

namespace SV.Drv
open SV SV.Term SV.PC

/-- match the fields of a pattern node against the fields of a term node: same structure, slots related by `σ` -/
def matchField : Field → Field → List (Nat × Nat) → Option (List (Nat × Nat))
  | .slot a, .slot b, σ =>
    (match σ.find? (·.1 == a) with
     | some p => if p.2 == b then some σ else none
     | none => some ((a, b) :: σ))
  | .app _, .app _, σ => some σ
  | .lit u, .lit v, σ => if u == v then some σ else none
  | .bind a f, .bind b g, σ =>
    (match σ.find? (·.1 == a) with
     | some p => if p.2 == b then matchField f g σ else none
     | none => matchField f g ((a, b) :: σ))
  | _, _, _ => none

def matchFields : List Field → List Field → List (Nat × Nat) → Option (List (Nat × Nat))
  | [], [], σ => some σ
  | f :: fs, g :: gs, σ => (matchField f g σ).bind (matchFields fs gs)
  | _, _, _ => none

/-- heuristic matcher (untrusted): pattern (named, with pvar leaves) against a named term -/
partial def matchT (p t : Term) (acc : List (String × Term) × List (Nat × Nat)) : Option (List (String × Term) × List (Nat × Nat)) :=
  match pvarName p with
  | some a =>
    (match acc.1.find? (·.1 == a) with
     | some q => if Term.beq q.2 t then some acc else some acc   -- repeated variable: the instance check decides
     | none => some ((a, t) :: acc.1, acc.2))
  | none =>
    match p, t with
    | .mk n cs, .mk m ds =>
      if n.v != m.v || cs.length != ds.length then none else
      match matchFields n.fields m.fields acc.2 with
      | none => none
      | some σ => (cs.zip ds).foldl (fun a (c, d) => a.bind (matchT c d)) (some (acc.1, σ))

end SV.Drv
