import SlotVerif.Driver.SlotMapDrv
import SlotVerif.Driver.SlotDrv
import SlotVerif.Driver.ShapeDrv
import SlotVerif.Driver.ParseDrv
import SlotVerif.Driver.GroupDrv
import SlotVerif.Driver.EgDrv
import SlotVerif.Driver.ProgDrv
import SlotVerif.Driver.SnapDrv
import SlotVerif.Driver.EvDrv
import SlotVerif.Driver.RunnerDrv
import SlotVerif.Driver.ProofDrv
import SlotVerif.Driver.UfwDrv
import SlotVerif.Driver.GrpwDrv
/-! `svdriver`: reads one case per line `<suite> <body>`, prints one answer line per case. -/
open SV.Drv

def dispatch (line : String) : String :=
  let line := line.trimAscii.toString
  match line.splitOn " " with
  | suite :: rest =>
    let body := " ".intercalate rest
    match suite with
    | "sm" => smRun body
    | "slot" => slotRun body
    | "shape" => shapeRun body
    | "parse" => parseRun body
    | "parse2" => parse2Run body
    | "grp" => grpRun body
    | "egs" => egsRun body
    | "egr" => egrRun body
    | "eg" => egRun body
    | "expl" => explRun body
    | "prog" => progRun body
    | "ufw" => ufwRun body
    | "grpw" => grpwRun body
    | "snap" => snapRun body
    | "ev" => evRun body
    | "runner" => runnerRun body
    | "echo" => (body.splitOn " ").headD ""
    | "rules" => rulesRun body
    | _ => "bad-suite"
  | [] => "bad-line"

partial def loop (h : IO.FS.Stream) (out : IO.FS.Stream) : IO Unit := do
  let line ← h.getLine
  if line.isEmpty then return ()
  out.putStrLn (dispatch line)
  loop h out

def main : IO Unit := do
  let out ← IO.getStdout
  loop (← IO.getStdin) out
  out.flush
