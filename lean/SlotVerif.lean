import SlotVerif.Model.SlotMap
