"""Per-property configuration of ./check (suites, budgets, Lean module, evidence texts)."""

COMMON_ASSUME = [
    'the sampled inputs/histories are those of this run only; the implementation is executed, not proved',
]

PROPS = {}

PROPS['C19'] = dict(
    level='proof',
    module='SlotVerif.Props.C19',
    suites=[dict(name='sm', variant='default',
                 quick=dict(count=20000, set={'depth': 2}),
                 thorough=dict(count=600000, set={'depth': 3}))],
    rule='corr.slotmap.ops: all sequences of 47 small ops (ins/rem over the 4-slot alphabet {$0,$1,$n0,$n1}, inverse, '
         'compose_partial, compose_fresh, union, try_union) up to the stated depth, each followed by a fixed observation '
         'suffix; plus random sequences (<=40 ops, 14-slot alphabet, 4 registers, all public methods). '
         'non-trivial = the sequence overwrites a present key, removes a present key, or applies a binary op to maps with '
         'overlapping keys/values; distinct = by hash of the case line',
    trusted_base=['modelled, not verified: slice::binary_search_by_key on sorted input, SmallVec, derived Hash/Ord/Eq of (u32,u32) vectors'],
    assumptions=COMMON_ASSUME + ['default feature set (the `checks` feature turns several non-bijective inputs into asserts; those are exercised under C08)'],
    pending_theorems=[],
)

PROPS['C17'] = dict(
    level='proof',
    module='SlotVerif.Props.C17',
    suites=[dict(name='slot', variant='default',
                 quick=dict(count=30000), thorough=dict(count=1000000)),
            dict(name='mat', variant='default', shrink=False, quick=dict(count=400, timeout=900), thorough=dict(count=10000, timeout=3000)),
            dict(name='rw', variant='default', shrink=False, quick=dict(count=600, timeout=900), thorough=dict(count=8000, timeout=3000))],
    rule='(the consequence "slots invented internally never capture a user slot" is exercised through the matcher: the `mat` suite of C05, '
         'where a third of the derived patterns spell their slots like slots the e-graph invented for its own classes — `$f<N>` names read '
         'back from printed classes — and the match lists are compared with the Lean matcher model and validated one by one) '
         'corr.slot.table: random interleavings (2-30 ops) of Slot::fresh / Slot::numeric / Slot::named / Display / '
         'print-then-parse in a fresh thread (empty slot table), names drawn from a pool of plain identifiers, f<n>, f0<n>, '
         'f+<n>, <n>, 0<n>, +<n>, numbers around 2^30 and 2^32, empty, unicode digits, names starting with $; a third of the identifier-like names '
         'reach the table through the parser (RecExpr::parse("(var $<name>)")), and printed slots are parsed back both by Slot::named and through the parser; final equality matrix of all issued '
         'slots. non-trivial = the case contains a fresh call and a numeric-looking or f-prefixed name; distinct = by hash of the case line',
    trusted_base=['modelled, not verified: str::parse::<u32>, u32::to_string (model: Nat.toDigits/ofDigitChars with the u32 bound), HashMap<String,u32> lookup (model: List.idxOf)'],
    assumptions=COMMON_ASSUME + ['debug build: u32 overflow panics (Slot::numeric(u) for u >= 2^30, fresh counter exhaustion) are modelled as panics',
                                 'one thread; the table is thread-local (cross-thread independence is C20)'],
)

PROPS['C16'] = dict(
    level='proof',
    module='SlotVerif.Props.C16',
    suites=[dict(name='shape', variant='default', shrink=False,
                 outputs=['weak_shape', 'slots', 'all_occ', 'public_occ', 'private_occ', 'to_syntax', 'from_syntax(to_syntax)', 'apply_slotmap(shape,bij)', 'weak_shape(renamed)', 'weak_shape(shape)'],
                 quick=dict(count=60000), thorough=dict(count=2000000)),
            # the e-graph's shape (`EGraph::shape`, an anchor of the property: the weak shape minimised over the group-compatible
            # variants) through the snapshot correspondence: `shape`, `lookup` and `variants` queries on dumped states
            dict(name='snap', variant='default', shrink=False, quick=dict(count=400, set={'per_op': 1}), thorough=dict(count=10000, set={'per_op': 1}))],
    rule='corr.snapshot.queries (shape / lookup of probe e-nodes on dumped states, see C08) and corr.shape.weak: for each of the 7 harness languages (plain slots; Bind<AppliedId>; Bind<Bind<_>> with a free child '
         'before it; free child after a Bind; (Slot,AppliedId) pseudo-binder; payload types u32/i64/bool/char/Symbol; the main '
         'e-graph language) a random variant with random slot assignment (numeric and named slots, repeated names, child maps of '
         'size 0-3), in three scoping modes (clean 60%, binder names reused 20%, ill-scoped/shadowing 20%), plus an injective '
         'renaming of all its names (permutation of the names or into a disjoint alphabet). Compared: weak_shape (node+bijection) '
         'of the node, of the renamed node and of the shape; slots(); all/public/private occurrences; to_syntax; '
         'from_syntax(to_syntax); apply_slotmap(shape, bijection). The harness also evaluates the laws of the property on the '
         'implementation\'s answers. non-trivial = node has a repeated slot or a binder; distinct = by hash of the case line',
    trusted_base=['modelled, not verified: payload FromStr/Display impls (u32, i64, bool, char, Symbol), VecSet ordering'],
    assumptions=COMMON_ASSUME + ['the derive macro is exercised through seven concrete define_language! instances built from /repo/slotted-egraphs-derive (patched in)'],
    pending_theorems=['converse of weakShape_rename for NON-hygienic nodes (a name bound twice, or bound and free): proved is that both nodes are renamings of the common shape (same_shape_common_skeleton) and, for hygienic nodes, the full equivalence shape_eq_iff_renamed; a scoped alpha-equivalence relation is not formalised',
                      'bijection component of weakShape_rename is proved in Proofs/LookupEquiv.lean (weakShape_rename_bij) for globally injective renamings'],
)

PROPS['C18'] = dict(
    level='proof',
    module='SlotVerif.Props.C18',
    suites=[dict(name='parse', variant='default', shrink=False,
                 quick=dict(count=120000), thorough=dict(count=2000000))],
    rule='corr.parse.roundtrip + corr.parse.fuzz over the 7 harness languages: 1/6 of the cases print a generated pattern '
         '(depth <= 4, nested substitution brackets, textual/numeric/f<n> slots, payloads of every type), term or multi-pattern and '
         'parse the text back (round-trip predicate evaluated on the implementation); 5/6 mutate such a text (truncate at any char, '
         'drop prefix, delete/duplicate/swap tokens, splice brackets, `:=`, `?`, `$`, unicode whitespace, surplus arguments) and '
         'compare the outcome class ok:<printed>|err:<ParseError variant>|panic with the model. non-trivial = text with >= 2 '
         'nesting levels or a substitution bracket, or any mutated text; distinct = by hash of the case line',
    trusted_base=['modelled, not verified: char::is_whitespace (model: the Unicode White_Space list written out), str::trim/split, payload FromStr impls'],
    assumptions=COMMON_ASSUME + ['texts are parsed in a fresh thread (empty slot table) on both sides'],
    pending_theorems=[],
)

PROPS['C10'] = dict(
    level='proof',
    module='SlotVerif.Props.C10',
    suites=[dict(name='grp', variant='default', shrink=False,
                 outputs=['count', 'all_perms', 'contains', 'orbits', 'add_set', 'count_after_add', 'all_perms_after_add', 'incremental_add_flags', 'incremental_count', 'incremental_all_perms', 'incremental_contains', 'is_trivial'],
                 quick=dict(count=2000, set={'maxn': 4}), thorough=dict(count=20000, set={'maxn': 4}))],
    rule='corr.group.direct through the VerifGroup hook: EXHAUSTIVELY all generator sets of <= 3 permutations on 2, 3 and 4 slots '
         '(2371 sets), each combined with every single permutation as add_set argument (generator order rotated, numeric and named '
         'slot alphabets), plus random sets of 1-4 generators (dense and sparse) on 5 and 6 slots. Compared with the Lean model: '
         'count, sorted all_perms, contains for every permutation of the domain (n<=4) or 40 random ones, orbit of every point, '
         'add_set result/size/elements, and the same group built incrementally one generator at a time. Independently the harness '
         'computes the brute-force subgroup closure and checks sizes, duplicate-freeness and growth reports. '
         'non-trivial = generated group is neither trivial nor the full symmetric group; distinct = by hash of the case line',
    trusted_base=['modelled, not verified: FxHashSet/FxHashMap iteration order (model: list order; all compared observables are order-independent)'],
    assumptions=COMMON_ASSUME + ['Group<Perm> is exercised directly (hook) here; through EGraph unions under C01/C02'],
    pending_theorems=[],
)

EG_RULE = ('corr.spec.eq: histories over the main language (lam/app/var/let/add/mul/sum, multi-slot leaves f2 f3 f4 g1 g2 g3, '
           'unary h, binary k, numbers, symbols): 3-7 inserted terms (depth <= 2, 2-4 free slot names, deliberate sharing), '
           '1-4 unions, observed after every union; streams: mixed 50%, symmetry (permuted copies incl. 3-cycles) 10%, '
           'redundancy (partially overlapping slot sets) 10%, self-reference t = C[t\'] 10%, binders 20%. Observables per query: '
           'eq for every pair of tracked terms, slot count and symmetry count of every tracked term\'s class, number of live '
           'classes; the expected values come from the Lean saturation oracle (ground congruence closure over the history\'s '
           'names + 2-3 spares, all injective instances of all subterms). non-trivial = some slot count or symmetry count '
           'changed or a non-asserted pair became equal; distinct = by hash of the case line')

EG_TRUST = ['NOT modelled (judged per run only): union_internal/union_leaders/move_to, shrink_slots, rebuild/handle_pending in general, '
            'handle_congruence — no theorem quantifies over all histories of the implementation. Modelled since session 7: add_internal on a miss '
            '(mk_singleton_class, alloc_eclass, the one handle_pending turn it causes, determine_self_symmetries of the new node) as Snap.addNew '
            '(Model/Add.lean), tied to the code by the addnew query of the snap suite',
            'oracle completeness is not proved (a derivation may need names or terms outside the finite universe); '
            '"sound"-direction differences are re-judged with a larger pool before being reported',
            'term text encoding on the Lean side, RecExpr construction on the Rust side; the LN conversion Term.close is proved meaning-preserving for the model algebra (C03 close_preserves_meaning) but its faithfulness to alpha-equivalence in the Cong spec is by construction only']

PROPS['C01'] = dict(
    level='translation_validation',
    module='SlotVerif.Props.C01',
    suites=[dict(name='eg', variant='default', comparator='eg', direction='sound', escalate=5, shrink=False, panics_count=False,
                 quick=dict(count=1500), thorough=dict(count=40000)),
            dict(name='eg', variant='checks', comparator='eg', direction='sound', escalate=5, shrink=False, panics_count=False,
                 quick=dict(count=500), thorough=dict(count=10000))],
    rule=EG_RULE + '. C01 reads the differences where the implementation claims MORE than the spec derives (eq=1 vs 0, fewer slots, more symmetries, fewer classes).',
    trusted_base=EG_TRUST,
    assumptions=COMMON_ASSUME + ['panics are not C01 violations (no answer is given); they are C08\'s'],
    pending_theorems=[],
)

PROPS['C02'] = dict(
    level='translation_validation',
    module='SlotVerif.Props.C02',
    suites=[dict(name='eg', variant='default', comparator='eg', direction='complete', shrink=False,
                 quick=dict(count=1500), thorough=dict(count=40000)),
            dict(name='eg', variant='checks', comparator='eg', direction='complete', shrink=False,
                 quick=dict(count=500), thorough=dict(count=10000)),
            dict(name='eplant', variant='default', shrink=False, quick=dict(count=240), thorough=dict(count=4000))],
    rule=EG_RULE + '. C02 reads the differences where the implementation claims LESS than the spec derives (eq=0 vs 1, more slots, fewer symmetries, more classes), checked right after each union returns; a panic also counts.',
    trusted_base=EG_TRUST,
    assumptions=COMMON_ASSUME,
    pending_theorems=[],
)

PROPS['C12'] = dict(
    level='translation_validation',
    module='SlotVerif.Props.C12',
    suites=[dict(name='ord', variant='default', comparator='meta', shrink=False,
                 quick=dict(count=500, set={'variants': 5}), thorough=dict(count=10000, set={'variants': 11})),
            dict(name='ord', variant='checks', comparator='meta', shrink=False,
                 quick=dict(count=200, set={'variants': 5}), thorough=dict(count=3000, set={'variants': 11}))],
    rule='corr.order: each generated history (same generator and streams as C01/C02) is run in its original order and under 5 '
         '(thorough: 11) random re-orderings: insertion steps permuted, union steps permuted, each union flipped with probability '
         '1/2, unions either after all insertions or interleaved as early as both sides exist. Final observables (eq matrix over the '
         'tracked terms in original numbering, per-term slot count and symmetry count, live class count) must be identical across '
         'orders; a panic in one order only is also a difference. non-trivial = history with >= 3 unions of which two touch a '
         'common term; distinct = by hash of the case line',
    trusted_base=EG_TRUST,
    assumptions=COMMON_ASSUME + ['the spec side is order-independent by theorem; the implementation side is compared order against order'],
)

PROPS['C11'] = dict(
    level='translation_validation',
    module='SlotVerif.Props.C11',
    suites=[dict(name='ren', variant='default', comparator='meta', shrink=False,
                 quick=dict(count=600), thorough=dict(count=15000)),
            dict(name='ren', variant='checks', comparator='meta', shrink=False,
                 quick=dict(count=200), thorough=dict(count=4000))],
    rule='corr.rename: each generated history is run under the identity naming and under 3 of 5 renamings of its whole slot '
         'alphabet (bound and free names): numeric ascending, numeric reversed, named in reversed interning order, f<n> names above '
         'the fresh counter, numeric/named mixed and shuffled. Compared across runs: eq matrix, live class count, per-term slot and '
         'symmetry counts, and the non-fresh slots of every returned invocation mapped back through the renaming. '
         'non-trivial = the renaming changes the relative order of at least two names; distinct = by hash of the case line',
    trusted_base=EG_TRUST,
    assumptions=COMMON_ASSUME + ['analysis data and extraction cost under renaming are covered by C14/C06 runs, not here',
                                 'rewrite iterations under renaming are not yet part of this suite'],
)

PROPS['C13'] = dict(
    level='translation_validation',
    module='SlotVerif.Props.C13',
    suites=[dict(name='hist', variant='default', shrink=False,
                 quick=dict(count=300, set={'ops': 40}), thorough=dict(count=5000, set={'ops': 120})),
            dict(name='hist', variant='checks', shrink=False,
                 quick=dict(count=100, set={'ops': 40}), thorough=dict(count=1500, set={'ops': 120}))],
    rule='corr.history + corr.progress.events: long mixed histories (a structured seed history from the C01 generator, then random '
         'insertions — fresh terms, contexts around and permuted copies of earlier terms — and unions, 40 operations quick / 120 '
         'thorough) on one e-graph that is never re-checked in between (EGraph::check would heal stale union-find entries). After '
         'EVERY operation: every pair that ever compared equal still does; every invocation ever returned can be canonicalised and '
         'compared without panic, canonicalises to a live class with exactly the class slots as keys, idempotently, and is eq to '
         'its canonical form; its slot count never grows; and the progress measure before/after together with the hook event log '
         'of the operation is judged by the Lean event model (stepOK). corr.uf.writes (protocol ufw, same runs): the hook logs every '
         'unionfind_set call; after every operation the Lean write model (Snap.applyWrites: each write must pass validWrite, i.e. be an '
         'alloc / merge-into-a-leader / shrink-of-a-leader with its guard) advances a model table from the empty table, and every id must '
         'resolve in the model table exactly as in the dumped table of the implementation (which also went through path compression). '
         'corr.group.contract (protocol grpw, same runs): the hook logs, for every move_to, the map written into the union-find and the '
         'generators of the absorbed class and of the surviving class before and after, and for every shrink_slots the retained slots '
         'and the generators before and after; Grpw.mergeOK demands that every old generator of the survivor and every transported '
         'generator N;g;N^-1 of the absorbed class is a member of the new group and that every new generator is a member of the group '
         'those generate; Grpw.shrinkOK that the new group is the group of the restricted cap-preserving generators; Grpw.addOK (every Group::add of '
         'union_leaders / determine_self_symmetries) that the new group is exactly the group of the old generators and the added permutation, '
         'which for a self-union id[l] = id[r] must be r ; l^-1. '
         'non-trivial = some operation logged a shrink or addsym event; distinct = by hash of the case line',
    trusted_base=EG_TRUST + ['event hooks (alloc/merge/shrink/addsym call sites, commit 01d0fa8) are assumed to sit at every place that changes the measure; a missing site shows up as a stepOK failure', 'the write-log hook (commit e7aaaef) sits in unionfind_set, the only writer of the table besides the path-compression write-back (modelled separately, compress_preserves_find); a write that bypassed it shows up as a resolution mismatch', 'the group-log hook (commit a524cf1) sits in move_to and shrink_slots; the two Group::add sites of the e-graph (union_leaders on a self-union, determine_self_symmetries) are logged by commit 6820234 and judged by Grpw.addOK; a refactoring that removes a call site removes its log entries (missing, not wrong)'],
    assumptions=COMMON_ASSUME + ['every 9 operations and at the end: Extractor::extract (AstSize) from every handle ever returned; the result must be represented and eq to the handle',
                                 'a rewrite iteration (2-3 pool rules chosen by position) every 11 operations, judged by the same event model'],
)

SNAP_RULE = ('corr.snapshot.queries: after a generated history (C01 generator) the private state is dumped through the hook and the '
             'implementation is asked: ids, is_alive of every id, slots and group size of every live class, find_applied_id of every '
             'tracked handle and of copies with permuted/renamed arguments, eq of handle pairs, and lookup + shape of probe e-nodes '
             '(h/k/add/app/lam around handles, plus every e-node listed by enodes()); the Lean snapshot model answers the same queries '
             'from the dump alone. lookup results are compared by class id and slot set, and additionally the model decides that '
             'its own result is eq (class symmetries) to the implementation\'s. The state is dumped again afterwards and must be unchanged '
             'apart from union-find path compression. non-trivial = the state has a non-trivial group or a dead class; distinct = by hash of the case line')

SNAP_OUTPUTS = None

PROPS['C08'] = dict(
    level='translation_validation',
    module='SlotVerif.Props.C08',
    suites=[dict(name='snap', variant='default', shrink=False, quick=dict(count=1200, set={'per_op': 1}), thorough=dict(count=40000, set={'per_op': 1})),
            dict(name='snap', variant='checks', shrink=False, quick=dict(count=800, set={'per_op': 1}), thorough=dict(count=20000, set={'per_op': 1})),
            dict(name='hist', variant='checks', shrink=False, quick=dict(count=100, set={'ops': 40}), thorough=dict(count=2000, set={'ops': 120}))],
    rule='corr.ops.consistent: histories of insertions and unions (C01 generator incl. symmetry / redundancy / self-reference / '
         'inheritance streams), in the default build and in the build with the crate\'s internal assertions compiled in. After EVERY '
         'operation, under catch_unwind: EGraph::check(); every e-node listed for a live class looks up to that class; no shape occurs '
         'in two classes; every e-node mentions all slots of its class; the identity invocation of a live class is canonical; find is '
         'idempotent on all tracked handles. At the end the state is dumped and judged by the Lean checker checkInv, and the read-only '
         'functions are compared with the snapshot model (' + SNAP_RULE + '). Path compression: right after the dump a random sequence of ids '
         '(every id, shuffled, with repeats) is resolved through the public find_applied_id and the union-find table the implementation '
         'ends with is compared entry by entry with the write-backs of the Lean model (Snap.compressAll), which is proved to preserve '
         'every lookup (findW_spec, compress_preserves_find); a quarter of the histories are tournament-style chains of unions of small '
         'classes. Long histories (hist suite) run in the checks build too. '
         'non-trivial = the state has a non-trivial group or a dead class / the history logged shrink or addsym events',
    trusted_base=EG_TRUST + ['panic-freedom of the mutators is established per run only (catch_unwind), never by theorem'],
    assumptions=COMMON_ASSUME + ['rewriting and extraction sequences are exercised by the C03/C06/C15 suites; their panics are reported there'],
)

PROPS['C09'] = dict(
    level='translation_validation',
    module='SlotVerif.Props.C09',
    suites=[dict(name='look', variant='default', comparator='eg', direction=None, shrink=False, quick=dict(count=400), thorough=dict(count=8000)),
            dict(name='look', variant='checks', comparator='eg', direction=None, shrink=False, quick=dict(count=120), thorough=dict(count=2000)),
            dict(name='snap', variant='default', shrink=False, quick=dict(count=600), thorough=dict(count=20000))],
    rule='corr.add.lookup: after a generated history, 6 probe terms from the pools {literally inserted, alpha-renamed, free slots '
         'renamed, a tracked context rebuilt around the OTHER side of a union (present only through the union), a new context, random}: '
         'lookup_rec_expr on the untouched e-graph (state dumped before/after: unchanged modulo path compression), then add_expr. '
         'Predicates on the implementation: lookup is Some exactly when insertion creates no class and no e-node; lookup eq add; '
         'add(t·ρ) eq add(t)·ρ for a random injective renaming ρ of the free slots. Compared with the Lean oracle: represented? and '
         'the number of slots of the returned invocation (= free slots minus redundant ones). Plus ' + SNAP_RULE +
         ' corr.add.miss (query addnew of the snap suite): probe e-nodes that are not represented are inserted with EGraph::add; the Lean model '
         'of the miss path (Snap.addNew: shape, fresh class with the leader entry, the stored shape and bijection as handle_pending leaves them, '
         'the self-symmetries determine_self_symmetries adds) applied to the dump before the first such insertion must give the dump after it: '
         'same union-find resolution of every id, old classes untouched, slot set, stored shape, group as a set, stored bijection up to a '
         'symmetry of the new class (which of several equally minimal variants min_by_key meets first follows a hash set), model state '
         'satisfies checkInv; harness predicates on every such insertion: exactly one class allocated, lookup afterwards returns the handle. '
         ' non-trivial (look) = the case has a via-union or alpha probe',
    trusted_base=EG_TRUST,
    assumptions=COMMON_ASSUME,
)

PROPS['C03'] = dict(
    level='translation_validation',
    module='SlotVerif.Props.C03',
    suites=[dict(name='rw', variant='default', shrink=False, quick=dict(count=1500, timeout=900), thorough=dict(count=30000, timeout=3000)),
            dict(name='rw', variant='checks', shrink=False, quick=dict(count=400, timeout=900), thorough=dict(count=8000, timeout=3000))],
    rule='corr.eval: 1-2 start terms over the arithmetic fragment of the main language (add, mul, numbers, symbols, var, sum $x, '
         'let $x, h, k; depth 2-3; slots occur only through (var $x), which is what makes b[(var $x) := t] meaningful), a random '
         'subset of 2-8 rules of the 35-rule pool proved valid in Lean, 1-4 apply_rewrites iterations within a node budget, with '
         'SynExprSubst (2/3) or ExtractionSubst (1/3), side conditions either as closures or through the crate\'s slot_free_in/and '
         'helpers (1/2 each). Afterwards, per live class: every e-node with its children replaced by representative terms (built by the '
         'harness bottom-up from enodes(), binders renamed apart), plus the originally inserted term, is evaluated by the Lean model '
         'under 24 pseudo-random environments (values in F7, non-injective ones included) and again with the slots the class does '
         'not list re-randomised: all values per class must agree. The rule texts used by the harness are compared with the Lean '
         'pool on every run. non-trivial = a rule with a binder was in the subset and something fired; distinct = by hash of the case line',
    trusted_base=EG_TRUST + ['the harness-side construction of representative terms from enodes() (capture avoidance by refresh_private)',
                             'scoping facts assumed by the validity theorems (Rule.implicit): a slot bound in the left pattern does not occur in a variable matched outside its scope; a slot bound only on the right occurs in no variable',
                             'groups whose terms nest more than 3 summations or exceed 120 nodes are skipped (evaluation cost 7^depth) and counted'],
    assumptions=COMMON_ASSUME + ['lam/app and multi-slot leaves are not part of the C03 fragment (no model for them / substitution form not meaningful)'],
    pending_theorems=[],
)

PROPS['C15'] = dict(
    level='proof',
    module='SlotVerif.Props.C15',
    suites=[dict(name='runner', variant='default', shrink=False, quick=dict(count=900, timeout=900, set=dict(case_timeout=180)), thorough=dict(count=15000, timeout=3000, set=dict(case_timeout=180))),
            dict(name='runner', variant='checks', shrink=False, quick=dict(count=300, timeout=900, set=dict(case_timeout=180, node_cap=300)), thorough=dict(count=4000, timeout=3000, set=dict(case_timeout=180, node_cap=300)))],
    rule='corr.runner.control: Runner::run (2/3 of the non-direct cases) and run_eqsat (1/3) on 1-2 arithmetic start terms with a '
         'random subset of 1-6 pool rules, iter_limit from {0,1,2,5,30}, node_limit from {0,5,20,10000}, a recording hook and a '
         'scripted hook that fails at iteration 0, 1 or 2 in a quarter of the cases. The per-iteration observations (did the '
         'directly computed measure move, which hook failed, node count) are fed to the Lean loop model, which must predict the '
         'reported stop reason and iteration count. Independent fingerprint (node count, eq partition over the roots, slot and '
         'symmetry counts, class count) and the hook event log per iteration: no measure change => no event and same fingerprint. '
         'After Saturated: one more apply_rewrites changes nothing and both sides of every (condition-satisfying) match are eq. '
         'The report\'s node count must equal total_number_of_nodes(). One third of the cases call apply_rewrites directly (2-5 times) '
         'and judge its boolean against events + fingerprint, and each step against the Lean event model. '
         'non-trivial = at least two iterations; distinct = by hash of the case line',
    trusted_base=['modelled, not verified: std::time (time limit fixed far away), Vec/Box<dyn FnMut> hook plumbing',
                  'apply_rewrites / ematch / union are not modelled: their effect enters the loop model as observations',
                  'the measure used for the observations is the hook verif_measure (documented definition computed directly from the state), NOT ProgressMeasure'],
    assumptions=COMMON_ASSUME,
)

PROPS['C06'] = dict(
    level='translation_validation',
    module='SlotVerif.Props.C06',
    suites=[dict(name='ext', variant='default', shrink=False, quick=dict(count=1200, timeout=900), thorough=dict(count=30000, timeout=3000)),
            dict(name='ext', variant='checks', shrink=False, quick=dict(count=400, timeout=900), thorough=dict(count=8000, timeout=3000))],
    rule='corr.extract.cost: e-graphs reached by insertion/union histories (C01 generator: symmetric, redundant, self-referential '
         'classes) or by arithmetic start terms + unions + 1-3 rewrite iterations with pool rules; three cost functions (AstSize, '
         'depth-weighted 1+2*sum, per-operator weights where numbers are the most expensive leaves). For every live class: '
         'get_best_cost must equal the entry of the Lean cost table computed from the dumped state and accepted by the verified '
         'checker checkTable (classes without finite term: none on both sides); extract under a random renaming of the arguments '
         'must not panic, the term must be represented in exactly the queried invocation (lookup_rec_expr eq query), its '
         'independently recomputed cost (cost_rec) must equal the reported best cost, and its free slots must be query arguments or '
         'fresh slots. non-trivial = some class holds an e-node with a redundant slot, or a non-trivial group; distinct = by hash of the case line',
    trusted_base=EG_TRUST + ['Extractor::new (priority-queue loop) is modelled as Extract.loop / Extract.dijkstra (heap = list with cheapest-first selection, usages(i) = every stored e-node mentioning i, the e-node kept next to a cost dropped) and proved to end with an accepted table for every state with distinct class ids (dijkstra_accepted); the tie to the code is the per-run comparison of get_best_cost of every live class with that table; the tie-break among equally cheap queue entries and Extractor::extract (slot level) are not modelled'],
    assumptions=COMMON_ASSUME,
    pending_theorems=[],
)

PROPS['C14'] = dict(
    level='translation_validation',
    module='SlotVerif.Props.C14',
    suites=[dict(name='ana', variant='default', shrink=False, quick=dict(count=160, timeout=900), thorough=dict(count=4000, timeout=3000)),
            dict(name='ana', variant='checks', shrink=False, quick=dict(count=60, timeout=900), thorough=dict(count=1000, timeout=3000))],
    rule='corr.analysis.fixpoint: per generated case four runs: (1,2) an insertion/union history (C01 generator) under the min-size '
         'and the min-depth analysis, checkpoint after EVERY operation; (3,4) arithmetic start terms + 2-6 pool rules + 1-3 rewrite '
         'iterations under constant folding (values mod 7, modify hook inserts the number and unions it) and under min-size, '
         'checkpoint after every iteration. At a checkpoint the state is dumped with every class\'s datum and the Lean model decides: '
         'every live class carries exactly the join over its e-nodes of make(children\'s current data) (all classes, not a sample); '
         'for min-size the datum equals the checked cheapest AstSize cost (C06 table); for const a class with datum v holds the number '
         'node v and no other number. Harness predicates: classes that compare equal share one datum; after a union the datum is at '
         'least as good as the join of both sides. Quick tier evaluates every second checkpoint and the last. '
         'non-trivial = the state has at least 4 classes; distinct = by hash of the case line',
    trusted_base=EG_TRUST + ['the three analyses are written twice (Rust in the harness, Lean in Model/Analysis.lean); their agreement is exactly what the per-run fixpoint check exercises'],
    assumptions=COMMON_ASSUME + ['constant folding is only run on histories of model-valid rewrites (its merge is a join only on compatible data)'],
)

PROPS['C05'] = dict(
    level='translation_validation',
    module='SlotVerif.Props.C05',
    suites=[dict(name='mat', variant='default', shrink=False, quick=dict(count=800, timeout=900), thorough=dict(count=50000, timeout=3000)),
            dict(name='mat', variant='checks', shrink=False, quick=dict(count=250, timeout=900), thorough=dict(count=10000, timeout=3000))],
    rule='corr.match.sound: e-graphs from the C01 history generator (symmetric, redundant, self-referential classes); 4 single '
         'patterns per graph obtained from tracked terms by abstracting random subterms into pattern variables (identical subterms '
         'share a variable; subterms under binders included) and renaming all slots into pattern slot names; 2 multi-patterns of 1-3 '
         'equations `?o == node(?c..)` built from e-nodes of tracked terms with shared variables, parsed from text. Every substitution '
         'returned by ematch_all (first 12 per pattern) and multi_ematch (first 10) is printed and judged on the dumped state by the '
         'Lean checker (checkMatch: all variables bound and the instance looks up without inserting; checkEquation: both sides of each '
         'equation are bound and eq). Harness predicates: all variables bound, instance found by the implementation\'s own read-only '
         'lookup, invocations bijective, state dump unchanged by matching (modulo path compression). non-trivial = at least two '
         'substitutions were judged; distinct = by hash of the case line. In addition the WHOLE list of matches of every single pattern '
         '(the four derived ones and the non-linear (k ?v ?v), (add ?v ?v)) is compared with the list computed by the Lean model of '
         'ematch_all/ematch_impl/ematch_node/final_subst + enodes_applied on the dumped state (query `ematch`), as sets modulo the names '
         'of fresh slots (numbered by first appearance, variables in name order) and modulo the symmetries of the bound classes '
         '(smallest rendering over the orbit, ties kept). The same for multi_ematch (query `mmatch`) against the Lean model of '
         'src/rewrite/multipat.rs.',
    trusted_base=EG_TRUST + ['both matchers are modelled (Model/EMatch.lean, Model/MultiMatch.lean) and compared as '
                             'match SETS (multi-patterns only when (largest symmetry group)^(number of equations) <= 3000: the list-based model is ~100x slower than the code; a match whose canonical numbering has more than 48 equally good candidates is compared in a coarse form): the order of matches, the identity of fresh slots and the choice among symmetric representatives '
                             '(all consequences of hash-set iteration order) are abstracted by the canonical rendering, implemented twice '
                             '(Lean driver, Rust harness)'],
    assumptions=COMMON_ASSUME,
)

PROPS['C04'] = dict(
    level='translation_validation',
    module='SlotVerif.Props.C04',
    suites=[dict(name='plant', variant='default', shrink=False, quick=dict(count=1500, timeout=900), thorough=dict(count=40000, timeout=3000)),
            dict(name='plant', variant='checks', shrink=False, quick=dict(count=400, timeout=900), thorough=dict(count=8000, timeout=3000)),
            dict(name='mat', variant='default', shrink=False, quick=dict(count=500, timeout=900), thorough=dict(count=20000, timeout=3000))],
    rule='corr.match.complete: the harness PLANTS instances: a random term (every bound name bound once, binder names apart from free '
         'names), a left pattern abstracted from it (random subterms become pattern variables, identical subterms share one; subterms '
         'under binders included; all slots renamed injectively to pattern slot names), a right pattern over the same variables '
         '(h(lhs), k(?v, h(?w)) or k(lhs, ?v)) whose instance has the same free slots. In 3/4 of the plants the instance is never '
         'inserted literally: a subterm u is replaced by a different term w with the same free slots, u and w are inserted and unioned '
         '(present only up to equality); in 1/4 a child class is made symmetric. Plants on which some class has a redundant slot are '
         'discarded (scope of the property) and counted. Then: the Lean checker must accept the planted substitution for the left '
         'pattern on the dumped state; one apply_rewrites of the rule; the right instance must be found by lookup_rec_expr and be eq to '
         'the left instance, and the Lean checker must accept the substitution for the right pattern on the new dump. '
         'non-trivial = the instance is present only up to equality; distinct = by hash of the case line Third suite (mat, shared with C05): the complete match list of every queried pattern is compared with the list the Lean model of the matcher computes on the dumped state — a match the implementation misses (or invents) relative to the modelled algorithm is a difference.',
    trusted_base=EG_TRUST + ['the harness-side construction of the expected right instance (pattern instantiation and slot renaming) '],
    assumptions=COMMON_ASSUME + ['scope as stated in the property: no class with a redundant slot, bound names bound once and not used free'],
)

PROPS['C07'] = dict(
    level='translation_validation',
    module='SlotVerif.Props.C07',
    suites=[dict(name='expl', variant='explanations', comparator='prf',
                 quick=dict(count=1600, timeout=900), thorough=dict(count=60000, timeout=3000, set=dict(max_pairs=12)))],
    rule='corr.proof: histories of add_syn_expr, union_justified (one fresh label per union) and rule applications (apply_rewrites with one of 8 substitution-free rules: commutativity, associativity, swaps, h-to-k, a rule under a lam binder, exchange of two sum binders, a slot swap; pairs of terms that differ by one rule application at the root, inside a context or under a binder) from the C01 generator '
         '(3-cycles and longer, non-commuting generators, redundant slots, self-reference, binders); for every ordered pair of '
         'tracked terms that eq reports equal (first 6; 12 in thorough) explain_equivalence is called under catch_unwind, the returned '
         'DAG is walked through ProvenEqRaw::proof()/equ(), every node claim is exported as a pair of TERMS through get_syn_expr, and '
         'to_string must not panic. The Lean checker (PC.checkNode, compiled) must accept every node: premise indices smaller than the '
         'node, premise count matching the rule, and the claim derivable from the premises\' claims alone (for a leaf: from the asserted '
         'equation carrying its label, as recorded by the harness from the history) by the verified-sound oracle; the root claim must '
         'match the queried pair up to an injective renaming (Orc.instOf). non-trivial = at least one proof was checked; distinct = by '
         'hash of the case line (which contains the proofs)',
    explanation='Proof construction is not modelled; each returned proof is validated by a checker whose "yes" is proved to imply '
                'derivability in the specification (checkDag_sound, explanation_valid), for DAGs of every size and every choice of '
                'the heuristics. A node the checker does not accept with all three heuristics is reported as a violation (bad<i>) '
                'unless the universe hit its size cap (und<i>, counted as inconclusive).',
    trusted_base=['src/explain/* and the proof-carrying wrappers are not modelled; only returned proofs are judged',
                  'Model/Spec.lean Cong is the specification of equality (shared with C01)',
                  'get_syn_expr is used to turn the implementation\'s claims into terms (it is the documented observation point); '
                  'the asserted equations and the queried pairs come from the harness\'s own history, not from the e-graph'],
    assumptions=COMMON_ASSUME + [
        'leaves of rule applications are judged as literal instances of the rule (PC.ruleInstance: injective renaming of the pattern '
        'slots, pattern variables replaced by terms, substitution found by an untrusted matcher); a leaf stated over e-class arguments '
        'whose redundant slots were filled with fresh names independently on both sides is an instance only modulo redundancy facts the '
        'leaf does not carry — such leaves are counted as undecided (rule_application_leaves_undecided in the evidence), never as '
        'violations; rules with substitution patterns `b[x := t]` are not used',
        'to_flat_string is not called: it recurses without bound on cyclic slot maps (src/explain/flat.rs map_slot) and overflows '
        'the stack; it is not an observation point of the property',
        'explanations build without the checks feature: with checks, assert_match_equation additionally demands a globally bijective '
        'renaming, stricter than the property (finding F8, DESIGN.md)'],
)

PROPS['C20'] = dict(
    level='other',
    module='SlotVerif.Props.C20',
    suites=[dict(name='repro', variant='default', shrink=False, quick=dict(count=160, timeout=900), thorough=dict(count=3000, timeout=3000)),
            dict(name='repro', variant='explanations', shrink=False, quick=dict(count=40, timeout=900), thorough=dict(count=600, timeout=3000))],
    rule='corr.replay: each history (insertions, unions from the C01 generator, extra arithmetic terms, 0-4 pool rules for 1-2 rewrite '
         'iterations, then find of all handles, enodes of all classes, ematch_all of six patterns in returned order, extraction of '
         'every class, the measure) is executed 4 times in fresh threads started at different times with different allocation '
         'prefixes while 4 other threads build unrelated e-graphs, intern symbols and slot names and allocate; the raw transcripts '
         '(Debug/Display output: class ids, invocations, slot names, match lists, extracted terms — nothing sorted or canonicalised) '
         'are compared byte for byte; every fourth history is additionally replayed in a second process and the transcript hashes '
         'compared. non-trivial = a rewrite iteration changed something and at least one match was listed; distinct = by hash of the case',
    explanation='No theorem can cover this property: a Lean model is deterministic by construction, and the property is about exactly what '
                'the models abstract away (hash seeds, addresses, thread-local and global interning state, scheduling). The check is a '
                'concurrency replay (exploration), reported under level "other"; it is at the same time the per-run validation of the '
                'assumption all other correspondences make, namely that the implementation is a function of its operation list.',
    trusted_base=['no model: raw transcripts of the implementation are compared with each other'],
    assumptions=COMMON_ASSUME + ['EGraph::dump() prints to stdout and is not captured; the snapshot hook is not used either (it sorts its lines)'],
)

# ---- additions of session 5 (seed rounds 8-11), appended to the exploration rules that go into the evidence files
_EG_ADD = (' Session 5: 0-7 fresh slots are drawn before the e-graph is built (number = hash of the case line: the names of the class slots, '
           'hence the iteration order of the hash sets inside the groups and the pending map, vary); in half of the cases another small e-graph '
           '(redundancy, symmetry, lookup) lived on the thread before; an eighth of the histories spell every slot `$f<k>`; further streams: '
           'migrate (a node that moved into another class loses a slot later; self-referential node losing its last link), latered2, fcapture '
           '(`λx. x $f<N>` with N ahead of the fresh counter), symred4 (composite symmetry on four slots, then a redundant position), sumxor (two '
           'invocations of one class over different slot sets with equal sum and xor of the slot numbers), symbinder (a binder over a child whose symmetry '
           'exchanges the bound slot with a free one), wred (Main variant 19 `w(slot, child)`: the slot handed to the child at a redundant position).')
_ADD = {
    'C01': _EG_ADD, 'C02': _EG_ADD, 'C08': _EG_ADD, 'C09': _EG_ADD + ' Every lookup probe is also looked up before every union (answers discarded).', 'C12': _EG_ADD, 'C13': _EG_ADD,
    'C03': ' Session 5: pool rule 33 `let-intro` (a binder only the right side writes); a third of the runs spell the rules\' own slots '
           '`$f<N>` (N ahead of the fresh counter, first rule highest) and parse them after the terms were inserted; nested `let` redexes with '
           'ExtractionSubst; in half of the runs the same rule objects were applied to another e-graph (same terms, same substitution method) before.',
    'C04': ' Session 5: a fifth of the plants run a second rule `q => 0` first (q a proper subpattern of the planted left side) whose unions '
           'make the slots of the q instance redundant; half of the plants apply the rule objects to a second e-graph (built by the same steps) first.',
    'C05': ' Session 5: multi-patterns also with numeric slot names `$0..`; a fourth multi-pattern round takes a subterm apart into one equation '
           'per node with consistent slot names; a third of the derived single patterns spell their slots like the e-graph\'s own class slots.',
    'C06': ' Session 5: extractors are built and dropped right before the last union of every history.',
    'C07': ' Session 5: stream latered2 (a child class dies before its leader learns a redundancy), stream ground (closed terms); half of the '
           'histories are preceded by another e-graph on the same thread with the same terms but other, separately labelled equations.',
    'C10': ' Session 5: `egr` cases — the symmetries are asserted by unions and 1-2 argument positions are declared redundant (before, after or '
           'interleaved); expected: orbit closure and the restricted group (Lean `egrRun`, brute force in the harness); 0-7 fresh slots first; for 2-3 slots the '
           'leaf class is in half of the cases also merged with a second leaf class (either way round, with or without redundant positions).',
    'C11': ' Session 5: stream symred4 in a sixth of the cases (see the eg streams); stream symfactor (`p*q + r*p` under mul-comm and the non-linear, slot-free factor rule).',
    'C14': ' Session 5: streams downgrade (a parent that uses a class directly and through a class whose datum depends on it; three unions) and tworoutes (one improvement reaches a class by two routes of different length); '
           'fresh-slot noise and warm-up e-graph as in the eg suites.',
    'C15': ' Session 5: a last hook that adds a class in every iteration (a third of the Runner cases); streams: `(k S S\')` with S\' the mirror '
           'image of a commutative S (an iteration that only adds a symmetry) and `x op x` before `x op y` under commutativity; three runner-only '
           'rules (k-same, k-same-h, k-comm) and three that each flip one pair of the six-slot class `t3(f2 f2 f2)`; rule objects re-used from another e-graph in half of the runs.',
    'C17': ' Session 5: see the suites list — the `mat` and `rw` suites cover the clause about internally invented slots (pattern slots spelled like '
           'class slots; rules whose slots are spelled `$f<N>`; a class with a binder created over `$1` and reached again over `$0`, the name stored '
           'shapes give their first binder, then rebuilt by the substitution of `let-subst`).',
    'C18': ' Session 5: half of the valid round trips draw 1-12 fresh slots between printing and parsing back; a sixth of the cases are `parse2` '
           'pairs: two texts parsed in ONE thread, the first usually broken at a dangling sigil after its first token, the model answering for '
           'the second text alone (in an eighth of them the first text, cut off inside several open parentheses, is parsed 150-350 times first).',
    'C19': ' Session 5: op `nf <N>` (`Slot::named("f<N>")`, modelled as the counter bump of C17) in a quarter of the random cases, the `$f<N>` '
           'slots then used as keys and values next to compose_fresh; the alphabet has named slots with two-digit names (n10..n13), which sort differently from their codes.',
    'C20': ' Session 5: a third of the symbol-free histories are replayed from TEXT (every replica parses the inserted terms), all named slots '
           'spelled `$f<N>`; a quarter of the histories contain `(mul (add x y) 0)` next to a binder and the rule mul-zero.',
    'C16': ' Session 5: one invocation in eight passes the same slot to two parameters (`c[x, x]`).',
}
for _k, _v in _ADD.items():
    if _k in PROPS:
        PROPS[_k]['rule'] = PROPS[_k]['rule'] + _v
