#!/bin/sh
# usage: seedrun.sh <Cxx> <check-id>...  — applies /verif/seeded/<Cxx>/patch.diff to /repo, runs the named checks, undoes it.
# The evidence files of the checks are saved before and restored afterwards (they must describe the unchanged tree).
# A patch that no longer applies plainly (later hook or fix commits touched neighbouring lines) is applied to the files it
# touches as they were at the most recent commit where it does apply plainly (the other files stay at HEAD); only if there is no
# such commit among the last 15 that touched those files is a 3-way merge tried, and a merge with conflict markers is refused.
id=$1; shift
P=/verif/seeded/$id/patch.diff
cd /repo && git status --short | grep -v '^??' && { echo "/repo dirty"; exit 1; }
if git apply --check $P 2>/dev/null; then
  git apply $P
else
  files=$(grep '^+++ b/' $P | sed 's#^+++ b/##')
  ok=0
  for c in $(git log --format=%h -n 15 -- $files); do
    for f in $files; do git show $c:$f > $f 2>/dev/null; done
    if git apply --check $P 2>/dev/null; then git apply $P; echo "patch applied to its files as of commit $c"; ok=1; break; fi
  done
  if [ $ok = 0 ]; then
    git checkout -- .
    git apply --3way $P 2>&1 | tail -2
    git reset -q
    if grep -rl '^<<<<<<<' src slotted-egraphs-derive >/dev/null 2>&1; then echo "patch does not apply (conflicts)"; git checkout -- .; exit 1; fi
  fi
fi
mkdir -p /verif/.work/evsave
for c in "$@"; do cp /verif/evidence/$c.json /verif/.work/evsave/$c.json 2>/dev/null; done
for c in "$@"; do (cd /verif && ./check $c | tail -3); done
for c in "$@"; do cp /verif/.work/evsave/$c.json /verif/evidence/$c.json 2>/dev/null; done
git -C /repo checkout -- . ; git -C /repo status --short | grep -v '^??'
