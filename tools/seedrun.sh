#!/bin/sh
# usage: seedrun.sh <Cxx> <check-id>...  — applies /verif/seeded/<Cxx>/patch.diff to /repo, runs the named checks, undoes it.
# The evidence files of the checks are saved before and restored afterwards (they must describe the unchanged tree).
id=$1; shift
cd /repo && git status --short | grep -v '^??' && { echo "/repo dirty"; exit 1; }
git -C /repo apply --3way /verif/seeded/$id/patch.diff 2>&1 | tail -2 || { echo "patch does not apply"; exit 1; }
git -C /repo reset -q
mkdir -p /verif/.work/evsave
for c in "$@"; do cp /verif/evidence/$c.json /verif/.work/evsave/$c.json 2>/dev/null; done
for c in "$@"; do (cd /verif && ./check $c | tail -3); done
for c in "$@"; do cp /verif/.work/evsave/$c.json /verif/evidence/$c.json 2>/dev/null; done
git -C /repo checkout -- . ; git -C /repo status --short | grep -v '^??'
