#!/bin/sh
# usage: seedconfirm2.sh <Cxx>   — second round (worktrees /tmp/wt2-<Cxx>): demo fails with the change, passes without;
# copies the deliverables to /verif/seeded/<Cxx>b/
id=$1; wt=/tmp/wt2-$id
cd $wt || exit 1
echo "== $id with change"; CARGO_NET_OFFLINE=true cargo test --offline --test seeded_demo 2>&1 | grep -E "^test |test result" | head -3
git stash push -q -- src && echo "== $id without change"; CARGO_NET_OFFLINE=true cargo test --offline --test seeded_demo 2>&1 | grep -E "^test |test result" | head -3
git stash pop -q
mkdir -p /verif/seeded/${id}b && cp SEEDED/patch.diff SEEDED/seeded_demo.rs SEEDED/meta.json /verif/seeded/${id}b/ 2>/dev/null
ls /verif/seeded/${id}b | tr '\n' ' '; echo
