#!/bin/sh
# usage: seedmatrix.sh [Cxx ...]  — for every seeded change: apply, run the quick check of its own property, undo; one line per seed
cd /verif
ids="$@"; [ -z "$ids" ] && ids=$(ls seeded)
for id in $ids; do
  out=$(tools/seedrun.sh $id $id 2>&1 | grep -E "VIOLATION|quick:|dirty|does not apply" | tr '\n' ' ')
  echo "$id: $out"
done
