#!/bin/sh
# usage: seedconfirm3.sh <Cxx> [suffix] [features]  — fourth round (worktrees /tmp/wt18-<Cxx>): demo fails with the change, passes
# without; no git stash (it is shared between worktrees): the change is taken from SEEDED/patch.diff.
id=$1; suf=${2:-r}; feat=$3; wt=/tmp/wt18-$id
cd $wt || exit 1
git checkout -q -- src 2>/dev/null
cp SEEDED/seeded_demo.rs tests/seeded_demo.rs
f=""; [ -n "$feat" ] && f="--features $feat"
echo "== $id without change"; CARGO_NET_OFFLINE=true cargo test --offline $f --test seeded_demo 2>&1 | grep -E "^test " | head -3
git apply SEEDED/patch.diff || { echo "patch does not apply"; exit 1; }
echo "== $id with change"; CARGO_NET_OFFLINE=true cargo test --offline $f --test seeded_demo 2>&1 | grep -E "^test " | head -3
mkdir -p /verif/seeded/${id}$suf && cp SEEDED/patch.diff SEEDED/seeded_demo.rs SEEDED/meta.json /verif/seeded/${id}$suf/ 2>/dev/null
ls /verif/seeded/${id}$suf | tr '\n' ' '; echo
