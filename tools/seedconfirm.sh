#!/bin/sh
# usage: seedconfirm.sh <Cxx>   — confirms a sub-agent's seeded change inside its scratch worktree:
# demo fails with the change, passes without; copies the deliverables to /verif/seeded/<Cxx>/
id=$1; wt=/tmp/wt-$id
cd $wt || exit 1
echo "== with change"; CARGO_NET_OFFLINE=true cargo test --offline --test seeded_demo 2>&1 | grep -E "^test |test result" | head -5
git stash push -q -- src && echo "== without change"; CARGO_NET_OFFLINE=true cargo test --offline --test seeded_demo 2>&1 | grep -E "^test |test result" | head -5
git stash pop -q
mkdir -p /verif/seeded/$id && cp SEEDED/patch.diff SEEDED/seeded_demo.rs SEEDED/meta.json /verif/seeded/$id/ 2>/dev/null
ls /verif/seeded/$id
