#!/bin/sh
# usage: seedconfirm.sh <Cxx>   — confirms a sub-agent's seeded change inside its scratch worktree:
# demo fails with the change, passes without; copies the deliverables to /verif/seeded/<Cxx>/
# (no `git stash`: the stash is shared by all worktrees of a repository; the tree is reset and the patch applied / reverted)
id=$1; wt=/tmp/wt-$id
cd $wt || exit 1
feat=$(jq -r '.features // ""' SEEDED/meta.json 2>/dev/null)
[ -n "$feat" ] && F="--features $feat" || F=""
git checkout -q -- . ; rm -f tests/seeded_demo.rs
git apply --check SEEDED/patch.diff || { echo "patch does not apply to the clean tree"; exit 1; }
git diff --stat SEEDED/patch.diff >/dev/null 2>&1
echo "== files touched: $(grep '^+++ ' SEEDED/patch.diff | tr '\n' ' ')"
cp SEEDED/seeded_demo.rs tests/seeded_demo.rs
git apply SEEDED/patch.diff
echo "== with change"; CARGO_NET_OFFLINE=true cargo test --offline $F --test seeded_demo 2>&1 | grep -E "^test |test result|^error" | head -8
git apply -R SEEDED/patch.diff
echo "== without change"; CARGO_NET_OFFLINE=true cargo test --offline $F --test seeded_demo 2>&1 | grep -E "^test |test result|^error" | head -8
rm -f tests/seeded_demo.rs
mkdir -p /verif/seeded/$id && cp SEEDED/patch.diff SEEDED/seeded_demo.rs SEEDED/meta.json /verif/seeded/$id/ 2>/dev/null
ls /verif/seeded/$id
