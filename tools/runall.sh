#!/bin/sh
# usage: runall.sh [quick|thorough]  — runs every registered check on the current tree, one line per property
cd /verif; tier=${1:-quick}
for id in C01 C02 C03 C04 C05 C06 C07 C08 C09 C10 C11 C12 C13 C14 C15 C16 C17 C18 C19 C20; do
  ./check $id --tier $tier 2>&1 | grep -E "VIOLATION|KNOWN-FINDING|$tier:" | cut -c1-260
done
