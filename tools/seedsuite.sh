#!/bin/sh
# usage: seedsuite.sh <Cxx>  — in the seed's scratch worktree: the pinned suite with the change applied (expected: 82 passed, the 3 baseline failures)
id=$1; wt=/tmp/wt-$id
cd $wt || exit 1
git checkout -q -- . ; rm -f tests/seeded_demo.rs
git apply SEEDED/patch.diff || exit 1
CARGO_NET_OFFLINE=true cargo test --offline --workspace --no-fail-fast -- --test-threads 4 2>&1 | grep -E "^test result|FAILED|^error" | sort | uniq -c
git apply -R SEEDED/patch.diff
