#!/bin/sh
# Builds the framework offline: the Lean project (model, proofs, svdriver) and the harness variants.
set -e
cd "$(dirname "$0")"
export CARGO_NET_OFFLINE=true
(cd lean && lake build)
cd harness
for v in default checks explanations explanations,checks; do
  d=target/$(echo $v | tr ',' '_')
  if [ "$v" = default ]; then f=""; else f="--features $v"; fi
  RUSTFLAGS="--cfg slotted_egraphs_verif -A warnings" cargo build --offline --target-dir $d $f
done
